#!/bin/bash
# usage: tools_seedscratch.sh <seed-id> [prop]   -- applies /verif/seeded/<seed-id>/patch.diff to a scratch copy of /repo
# (never to /repo itself), runs the quick check of the property on the copy and prints the verdict.
id=$1; prop=${2:-${id%%_*}}
S=$(mktemp -d /tmp/seedscr.XXXXXX); V=$(mktemp -d /tmp/seedscrv.XXXXXX)
rsync -a --exclude .git --exclude cmd/participle/participle ${BASE:-/repo}/ $S/
if ! (cd $S && patch -p1 -s < /verif/seeded/$id/patch.diff >/dev/null 2>&1); then echo "$id DOES-NOT-APPLY"; rm -rf $S $V; exit 3; fi
mkdir -p $V/evidence; cp -r /verif/stubs /verif/bounded /verif/known_findings.json $V/
lv=proof; case $prop in C08|C14|C16) lv=exploration;; C09) lv=other;; esac
out=$(/verif/bin/vcgo check -repo $S -verif $V -prop $prop -tier quick -level $lv -no-selftest 2>&1)
n=$(echo "$out" | grep -c '^VIOLATION')
if [ "$n" -gt 0 ]; then
  echo "$id CAUGHT-BY $prop ($n) :: $(echo "$out" | grep -o 'obligation=[^ ]*' | sort -u | head -3 | tr '\n' ' ') nfi=$(echo "$out" | grep -c no-failing-input-found)"
else
  echo "$id MISSED-BY $prop :: $(echo "$out" | grep -E '^UNDECIDED' | head -2 | cut -c1-160 | tr '\n' ' ')"
fi
rm -rf $S $V
