#!/bin/bash
./setup.sh || exit 2
export GOFLAGS=-mod=mod GOPROXY=off GOSUMDB=off GOTOOLCHAIN=local
for p in C12 C07 C04 C03 C13 C02 C10 C11 C06 C01 C15 C17 C18 C19 C08 C14 C16 C09; do
  lv=proof; case $p in C08|C14|C16) lv=exploration;; C09) lv=other;; esac
  s=$(date +%s)
  bin/vcgo check -repo $VP_RUN_REPO -verif $PWD -prop $p -tier thorough -level $lv > thorough_$p.log 2>&1; rc=$?
  echo "$p rc=$rc $(( $(date +%s)-s ))s $(grep -c '^VIOLATION' thorough_$p.log) viol $(grep -c SELFTEST-MISS thorough_$p.log) selftest-miss :: $(tail -1 thorough_$p.log | cut -c1-160)"
done
