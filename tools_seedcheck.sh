#!/bin/bash
# usage: tools_seedcheck.sh <patch.diff> <prop>... : apply a seeded change to /repo, run ./check for the properties, undo.
p=$1; shift
if [ -n "$(git -C /repo status --short | grep -v "participle$")" ]; then echo "REFUSING: /repo has uncommitted changes"; exit 4; fi
cd /repo && git apply "$p" || { echo "PATCH DOES NOT APPLY"; git -C /repo reset -q; git -C /repo checkout -- .; exit 3; }
for prop in "$@"; do
  out=$(cd /verif && ./check $prop 2>&1); rc=$?
  echo "$prop exit=$rc $(echo "$out" | grep -c '^VIOLATION') violations; $(echo "$out" | grep -E '^VIOLATION|^UNDECIDED' | head -2 | cut -c1-230)"
done
git -C /repo reset -q; git -C /repo checkout -- .
