#!/bin/bash
# runs every seeded change against the check of its own property (and, if missed, against all checks)
cd /verif
all=$(python3 -c "import json; print(' '.join(c['property_id'] for c in json.load(open('/verif/MANIFEST.json'))['checks']))")
for d in seeded/C*; do
  id=$(basename $d); prop=${id%%_*}
  if [ -n "$1" ] && [ "$1" != "$id" ]; then continue; fi
  r=$(./tools_seedcheck.sh /verif/$d/patch.diff $prop 2>&1)
  if echo "$r" | grep -q "exit=1"; then
    echo "$id CAUGHT-BY $prop :: $(echo "$r" | grep -o 'obligation=[^ ]*' | head -2 | tr '\n' ' ') $(echo "$r" | grep -c no-failing-input-found)nfi"
  else
    others=""
    for p in $all; do [ $p = $prop ] && continue; r2=$(./tools_seedcheck.sh /verif/$d/patch.diff $p 2>&1); echo "$r2" | grep -q "exit=1" && others="$others $p"; done
    echo "$id MISSED-BY $prop caught-by:[$others] :: $(echo "$r" | grep -E 'UNDECIDED|APPLY' | head -1 | cut -c1-150)"
  fi
done
