#!/usr/bin/env python3
"""Regenerates /verif/MANIFEST.json from the table below (keeps the manifest valid and consistent)."""
import json, subprocess

TECH = "contract-based deductive verification: VCs generated over go/ssa from //@ contracts, discharged by z3 4.8.12 / z3 5.1.0 / cvc5 1.0.3"
TRUST = ("Trusted: the VC generator's semantics of go/ssa (mathematical integers, functional append, pointer parameters at allocation roots), "
         "the SMT solvers, and the stubs/axioms listed in the evidence file. ")

CHECKS = {
 "C12": dict(level="proof",
   text="Every public PeekingLexer operation in lexer/peek.go (and Upgrade) carries a contract over the representation invariant plInv (stream ends in its only EOF; rawCursor<=nextCursor; tokens between them are elided; the token at nextCursor is EOF or not elided; cursor == number of non-elided tokens before rawCursor). Postconditions are the property's clauses; every index expression has a bounds obligation; frame conditions show the token stream and elision set never change. All obligations are discharged for all streams, elision sets, cursors and arguments, with no bound.",
   note=TRUST + "match callbacks are modelled as pure functions of the token; a user Lexer passed to Upgrade is assumed not to write the PeekingLexer under construction. The sequence-of-operations quantifier is covered by induction: each operation requires and re-establishes plInv and modifies only the Checkpoint.",
   ref="DESIGN.md section 4, C12"),
 "C07": dict(level="proof",
   text="StatefulLexer.Next, getPattern, both applyAction implementations (against the Action interface contract), Position.Advance, ConsumeAll and LexString are under contract: Next preserves the lexer invariant (state stack never empty), every index/slice expression is in bounds (no panic), every loop has a decreasing lexicographic measure (len(data), len(stack)) so each call terminates, an emitted non-EOF token is non-empty and strictly consumes input, and at end of input Next returns EOF at the same position without changing the lexer.",
   note=TRUST + "regexp is a trusted stub (FindStringSubmatchIndex returns nil or in-range ordered index pairs, unmatched groups -1); BackrefRegex and lexer.New carry assumed contracts (New is covered by a bounded stand-in under C03); the generated lexer template is not covered.",
   ref="DESIGN.md section 4, C07"),
 "C04": dict(level="proof",
   text="Position.Advance is proved to map an exact (offset,line,column) position of an input text to the exact position after the span, from eight trusted string axioms applied as ground instances; StatefulLexer.Next is proved (for every input text given as a ghost parameter) to keep data == input[offset:], to emit tokens whose value is exactly input[pos.Offset : pos.Offset+len(value)] with exact line/column and the caller's filename, contiguous with the lexer position, monotone offsets, and EOF at len(input); LexString establishes the invariant.",
   note=TRUST + "String axioms (count/lastIndex/runeCount over concatenation) are trusted and conformance-tested in the thorough tier; spans produced by regexp are assumed to end on rune boundaries (regexpSpanCut). Strictly-increasing offsets and 'concatenation equals input' over a whole run follow by induction over calls from the per-call contract (paper lemma). text/scanner-based and generated lexers are not covered.",
   ref="DESIGN.md section 4, C04"),
 "C03": dict(level="proof",
   text="Next is proved to select, in every state, the first rule in declared order that matches the whole remaining input (loop invariant + exit assertions: no earlier rule is Return or matches), to treat Return by popping exactly one state at the same offset (or to stop at the root), ActionPush/ActionPop are proved to push exactly {state, groups} / pop exactly the top and to reject empty matches; getPattern returns the compiled pattern or the back-reference expansion; NewSimple is proved to build exactly {\"Root\": rules in order}.",
   note=TRUST + "Regexp matching itself (re_matches, re_end) is uninterpreted/trusted; BackrefRegex and New have assumed contracts here: New's include expansion and symbol table are covered by the bounded stand-in reported in the same evidence file (bounded, not proof).",
   ref="DESIGN.md section 4, C03"),
}

NOT_APPLICABLE = {
 "C05": "relates two programs (generator output vs runtime lexer) for every rule set: translation validation / differential testing, not expressible as contracts on the generator's functions (DESIGN.md section 4, C05)",
}

def main():
    props = [json.loads(l)["id"] for l in open("/verif/properties.jsonl")]
    repo_commits = subprocess.run(["git", "-C", "/repo", "log", "--format=%h %s", "c4ba82b..HEAD"], capture_output=True, text=True).stdout.strip().split("\n")
    hook_commits = [c.split()[0] for c in repo_commits if c and c.split()[1].startswith("verif:")]
    checks = []
    for pid in props:
        if pid not in CHECKS:
            continue
        c = CHECKS[pid]
        checks.append({
            "property_id": pid,
            "quick_cmd": f"./check {pid} quick",
            "thorough_cmd": f"./check {pid} thorough",
            "evidence_file": f"/verif/evidence/{pid}.json",
            "replay_cmd_template": "./check replay {path}",
            "engine": "vcgo",
            "level_claimed": {"category": c["level"], "text": c["text"], "design_ref": c["ref"]},
            "level_note": c["note"],
            "technique": c.get("technique", TECH),
        })
    na = []
    for pid in props:
        if pid in CHECKS:
            continue
        reason = NOT_APPLICABLE.get(pid, "not yet built in this framework (no check registered); see DESIGN.md section 5")
        na.append({"property_id": pid, "reason": reason})
    m = {
        "version": 1,
        "setup_cmd": "./setup.sh",
        "hooks": {
            "guard": "verif",
            "enable": "go build -tags verif (adds comment-only contract files contracts_verif.go / lexer/contracts_verif.go; vcgo loads /repo with -tags=verif)",
            "baseline_off_cmd": "cd /repo && go test -vet=off -count=1 ./...",
            "source_commits": hook_commits,
            "add_only": True,
        },
        "engines": [{"name": "vcgo", "path": "engine", "serves_properties": sorted(CHECKS),
                     "kind_free_text": "self-written VC generator: symbolic execution of go/ssa with contracts (requires/ensures/modifies/loop invariants/decreases/lemmas/call-site assertions) read from //@ comment files behind build tag verif; obligations discharged by z3 4.8.12 / z3 5.1.0 / cvc5 1.0.3"}],
        "checks": checks,
        "notes": "See DESIGN.md. Genuine defects found are repaired by 'fix:' commits in /repo and recorded in known_findings.json.",
        "not_applicable": na,
    }
    json.dump(m, open("/verif/MANIFEST.json", "w"), indent=1)
    print("manifest written:", len(checks), "checks,", len(na), "not applicable")

if __name__ == "__main__":
    main()
