#!/usr/bin/env python3
"""Regenerates /verif/MANIFEST.json from the table below (keeps the manifest valid and consistent)."""
import json, subprocess

TECH = "contract-based deductive verification: VCs generated over go/ssa from //@ contracts, discharged by z3 4.8.12 / z3 5.1.0 / cvc5 1.0.3"
TRUST = ("Trusted: the VC generator's semantics of go/ssa (mathematical integers, functional append, pointer parameters at allocation roots), "
         "the SMT solvers, and the stubs/axioms listed in the evidence file. ")

CHECKS = {
 "C12": dict(level="proof",
   text="Every public PeekingLexer operation in lexer/peek.go (and Upgrade) carries a contract over the representation invariant plInv (stream ends in its only EOF; rawCursor<=nextCursor; tokens between them are elided; the token at nextCursor is EOF or not elided; cursor == number of non-elided tokens before rawCursor). Postconditions are the property's clauses; every index expression has a bounds obligation; frame conditions show the token stream and elision set never change. All obligations are discharged for all streams, elision sets, cursors and arguments, with no bound.",
   note=TRUST + "match callbacks are modelled as pure functions of the token; a user Lexer passed to Upgrade is assumed not to write the PeekingLexer under construction. The sequence-of-operations quantifier is covered by induction: each operation requires and re-establishes plInv and modifies only the Checkpoint.",
   ref="DESIGN.md section 4, C12"),
 "C07": dict(level="proof",
   text="StatefulLexer.Next, getPattern, both applyAction implementations (against the Action interface contract), Position.Advance, ConsumeAll and LexString are under contract: Next preserves the lexer invariant (state stack never empty), every index/slice expression is in bounds (no panic), every loop has a decreasing lexicographic measure (len(data), len(stack)) so each call terminates, an emitted non-EOF token is non-empty and strictly consumes input, and at end of input Next returns EOF at the same position without changing the lexer.",
   note=TRUST + "regexp is a trusted stub (FindStringSubmatchIndex returns nil or in-range ordered index pairs, unmatched groups -1); BackrefRegex carries an assumed contract; lexer.New is proved to establish the invariant Next starts from (rulesOK: every compiled pattern anchored, no include placeholder left), from one axiom about regexp syntax (a pattern that syntax.Parse accepts, wrapped as ^(?:p), can only match at the start); include.applyRules is proved against the RulesAction interface contract. The generated lexer template is not covered.",
   ref="DESIGN.md section 4, C07"),
 "C04": dict(level="proof",
   text="Position.Advance is proved to map an exact (offset,line,column) position of an input text to the exact position after the span, from eight trusted string axioms applied as ground instances; StatefulLexer.Next is proved (for every input text given as a ghost parameter) to keep data == input[offset:], to emit tokens whose value is exactly input[pos.Offset : pos.Offset+len(value)] with exact line/column and the caller's filename, contiguous with the lexer position, monotone offsets, and EOF at len(input); LexString establishes the invariant. The text/scanner-based lexer is covered by a bounded stand-in (all inputs up to 4/5 bytes over 13 bytes incl. invalid UTF-8 and NUL, four entry points); the stateful definition's reader entry point by another (3 definitions x all inputs up to 4/5 characters x 7 ways a reader may deliver its bytes, incl. data together with io.EOF, plus a failing reader).",
   note=TRUST + "String axioms (count/lastIndex/runeCount over concatenation) are trusted and conformance-tested in the thorough tier; spans produced by regexp are assumed to end on rune boundaries (regexpSpanCut). Strictly-increasing offsets and 'concatenation equals input' over a whole run follow by induction over calls from the per-call contract (paper lemma). text/scanner-based and generated lexers are not covered.",
   ref="DESIGN.md section 4, C04"),
 "C03": dict(level="proof",
   text="Next is proved to select, in every state, the first rule in declared order that matches the whole remaining input (loop invariant + exit assertions: no earlier rule is Return or matches), to treat Return by popping exactly one state at the same offset (or to stop at the root), ActionPush/ActionPop are proved to push exactly {state, groups} / pop exactly the top and to reject empty matches; getPattern returns the compiled pattern or the back-reference expansion; NewSimple is proved to build exactly {\"Root\": rules in order}. New is proved to set a rule's ignore flag exactly when its name starts with a lower-case letter (first rune; kept by include expansion), and Next to emit the matched rule's own symbol and never a token of such a rule; every lexer gets a state stack of its own.",
   note=TRUST + "Regexp matching itself (re_matches, re_end) is uninterpreted/trusted; BackrefRegex has an assumed contract here. New is proved for anchoring and complete include expansion; every rule is proved to get a token type below EOF (so Next returns the EOF type only at the end of the input); its exact table (splice order) and distinct numbers for distinct names are covered by the bounded stand-in reported in the same evidence file (bounded, not proof).",
   ref="DESIGN.md section 4, C03"),
}

CHECKS.update({
 "C13": dict(level="proof",
   text="The lookahead mechanism is under contract: parseContext.Stop returns exactly (lookahead >= 0 && branch.cursor - cursor > lookahead) (so an attempt is abandoned only if it consumed no more than the lookahead, and the decision is monotone in the lookahead), with machine-integer overflow obligations on the threshold arithmetic and on the creation and branching of the parse context (the lookahead is never narrowed); on true it has adopted the branch, on false the context is untouched. Every composite node (group, disjunction, sequence, capture, strct, union) is proved to propagate a committed error and to keep cursors monotone, so that an enclosing Stop sees it again. UseLookahead's closure is proved to store the value it was given unchanged (negative and > MaxLookahead included) and Build to leave the lookahead the options chose untouched. The whole-run statement is additionally decided within a bound by the grammar-meaning differential (bounded stand-in in the same evidence file, never counted as proved): every small grammar x input x lookahead is run through the real parser and through a reference interpreter of the ordered-choice, bounded-backtracking meaning written from the property text.",
   note=TRUST + "The step from these per-function contracts to 'a parse that succeeded with k succeeds identically with k' > k' (only Stop reads lookahead; every decision that was false for k is false for k') is a paper lemma, listed as unchecked.",
   ref="DESIGN.md section 4, C13"),
 "C02": dict(level="proof",
   text="Every grammar node's Parse is proved against one interface contract: deferred captures are only ever appended, every capture a node adds targets the struct it was asked to fill, a non-match leaves position and captures untouched, branches are fresh copies with an empty capture list (Branch), are adopted only by Accept/Stop, and negation/lookahead groups never adopt their branch. strct.Parse is proved to apply exactly the captures deferred during its own parse (Apply(from)) and to leave the enclosing production's captures deferred. The whole-run statement is additionally decided within a bound by the grammar-meaning differential (bounded stand-in in the same evidence file, never counted as proved): every small grammar x input x lookahead is run through the real parser and through a reference interpreter of the ordered-choice, bounded-backtracking meaning written from the property text.",
   note=TRUST + "reflect is opaque: 'written into the AST' is modelled by which contextFieldSet entries reach setField; the grammar graph's well-formedness (wf) is axiomatised (established by the tag parser, C19). Parseable/custom productions are user code with an assumed contract.",
   ref="DESIGN.md section 4, C02"),
 "C10": dict(level="proof",
   text="Token references and literals are proved to match exactly the first token from the raw cursor that is EOF, satisfies the node's own predicate (type equality; typed/case-folded literal comparison) or is not elided, to consume through that token with FastForward and to leave everything untouched otherwise; negation consumes exactly one non-elided token with Next; PeekAny/FastForward/Next/Peek contracts (C12) make every other observation a function of the non-elided sequence. The whole-run statement is additionally decided within a bound by the grammar-meaning differential (bounded stand-in in the same evidence file, never counted as proved): every small grammar x input x lookahead is run through the real parser and through a reference interpreter of the ordered-choice, bounded-backtracking meaning written from the property text.",
   note=TRUST + "The closure passed to PeekAny is linked to its body by a generated axiom; strings.EqualFold is an uninterpreted function. The whole-run statement (two inputs with equal non-elided sequences drive identical runs) is a paper lemma. A capture's token run starts at the first token the capture matched (F6, found by the bounded check 'capture token run', repaired; proved for references and literals through the firstMatch clauses of the node contract, bounded for the rest).",
   ref="DESIGN.md section 4, C10"),
 "C11": dict(level="proof",
   text="strct.Parse is proved to record Pos from the first non-elided token at the node's start (&tokens[nextCursor] at entry), EndPos from the raw token just after the last consumed one (&tokens[rawCursor] after the body) and Tokens == tokens[start:rawCursor] with start the raw cursor at entry and start <= end (Range never panics); capture.Parse hands Defer exactly tokens[start:rawCursor]; cursor monotonicity of every node (interface contract) gives nesting and ordering of child runs. The reflection half (which of Pos/EndPos/Tokens a node declares, with which convertible type, directly or embedded) is explored by the bounded node-shapes stand-in.",
   note=TRUST + "The reflection-based field writes (maybeInject*) are opaque; what is proved is the value handed to them. Nesting/disjointness over a whole tree is a paper lemma from monotonicity.",
   ref="DESIGN.md section 4, C11"),
 "C06": dict(level="proof",
   text="Panic-freedom (index, slice, nil, type-assertion, explicit panic obligations) and error shape for the runtime functions under contract: all PeekingLexer operations, StatefulLexer.Next, every node's Parse, parseContext methods, parseInto/parseOne/getElidedTypes: a non-nil error is a participle.Error or comes from user code (errOK, carried through deepestError bookkeeping), lexer token positions are exact (shared with C04), the lexing functions are non-recursive (bounded stack). FormatError, lexer.formatError and the Error() methods are proved to produce [file:]line:col: + space + message whenever a position is known. The text/scanner-based lexer's errors (located, consistent line/column), the stack needed by long flat inputs (100 000-200 000 tokens under a 16 MiB stack cap) captures into Capture / TextUnmarshaler fields and failures inside union members registered by pointer and by value (all token sequences up to 5/6 tokens, three lookaheads) are explored by bounded stand-ins. A union is proved to hand up no value when it fails, strct.Parse to hand up the expression's or the conversion's own error.",
   note=TRUST + "Not decided: recursion depth of the parser proper and 'never hangs' beyond the per-loop measures. Assumed: the root type's node exists in the parser's type table and is well-formed; disjunction's documented 'did not progress' panic is excluded by the property's premise; Build is proved to validate every Elide() name against the symbol table of the parser's lexer, through the mapping wrapper (the Parser invariant getElidedTypes relies on; assumed at the entry points, established by the constructor).",
   ref="DESIGN.md section 4, C06"),
 "C01": dict(level="proof",
   text="Operator-local obligations only: leaves match exactly their predicate (C10); sequence runs children in list order on the same context, first-child non-match leaves everything untouched, a later one is an UnexpectedTokenError; disjunction/union try alternatives in index order on fresh branches and adopt exactly the first success; group iterates on fresh branches; negation/lookahead test on a branch (negation then takes exactly one token); capture defers exactly once iff its child produced a value; Stop's exact threshold; the trailing-token rule of parseOne and rootParseable in both directions (success iff the next non-elided token is EOF or trailing input is allowed). The global equality 'parse result == denotational meaning' is NOT claimed. Build is proved to leave the lookahead and lexer the options chose in force, parseModifier to wrap its operand in a fresh group of exactly the modifier's mode without altering the operand, a '!' group to succeed only after consuming input, setCaseInsensitiveTokens to mark every token type whose symbol was declared case-insensitive. The whole-run statement is additionally decided within a bound by the grammar-meaning differential (bounded stand-in in the same evidence file, never counted as proved): every small grammar x input x lookahead is run through the real parser and through a reference interpreter of the ordered-choice, bounded-backtracking meaning written from the property text.",
   note=TRUST + "Composition of the operator contracts into the whole-grammar meaning is not machine-checked; setField/conform value semantics are under C17.",
   ref="DESIGN.md section 4, C01"),
})

CHECKS.update({
 "C15": dict(level="proof",
   text="The plumbing of every entry point is under contract: Parse/ParseString/ParseBytes hand the caller's filename and text to the definition's Lex/LexString/LexBytes and the resulting lexer plus the caller's options to parse; parse upgrades exactly that lexer and forwards the options to ParseFromLexer; ParseFromLexer builds the context from the parser's lookahead and case-insensitive table, and on every return path (including a Parseable root) leaves the caller's lexer at the position the parse reached; Parser.Lex consumes the lexer of the same definition; the mapping definition wraps the inner lexer with the same mapper; printTrace writes nothing but ctx.depth (so tracing cannot change results). StatefulDefinition.Lex is proved to hand LexString exactly the text it read under the caller's filename. The whole-run statement is additionally explored by the bounded entry-points stand-in (3 definitions x mapped / unmapped x 9 inputs x 8 entry points incl. readers that return data together with EOF).",
   note=TRUST + "User-supplied Definitions are assumed to make Lex/LexString/LexBytes agree (StatefulDefinition.Lex == LexString of the reader's content is by inspection); the elision list passed to Upgrade is the result of getElidedTypes (structural). Equality of ASTs across entry points follows because each reduces to the same ParseFromLexer call (paper lemma).",
   ref="DESIGN.md section 4, C15"),
 "C17": dict(level="proof",
   text="sizeOfKind is proved equal to the bit-size table of the property for all eleven numeric kinds (and its panic unreachable from conform); conform is proved to call ParseInt/ParseUint/ParseFloat exactly for the signed/unsigned/float kinds with base 0 and bitSize == bitsOf(kind), to store exactly the value strconv returned and to return (nil, err) on a conversion error; setField is proved to join the captured values (not anything else) before converting a scalar, to locate conversion errors at tokens[0].Pos and to have no index panic; a bounded differential check against strconv over real struct fields is reported in the same evidence file (bounded, not proof).",
   note=TRUST + "reflect and strconv are opaque stubs (function symbols); type assertions on reflection values in setField are assumed. The position of a conversion error is that of the first captured token (F6 repaired; bounded check 'capture token run').",
   ref="DESIGN.md section 4, C17"),
 "C18": dict(level="proof",
   text="unquote is proved, by a loop invariant over a recursive spec function transcribed from strconv.Unquote, to return the raw body for back-quoted text and otherwise the concatenation of the characters strconv.UnquoteChar decodes (single bytes stay single bytes), to fail exactly when UnquoteChar fails or the text is shorter than two bytes, and to terminate; Unquote's and Upper's mappers change only Value (type and position untouched) and report errors located at the token; the mapping lexer calls the mapper exactly once per inner token in order; Build's combined mapper applies the all-token mappers then the token type's mappers, each once, on every token. Unquote and Upper are additionally explored by a bounded stand-in (every ordered pair of 29 literals on one parser against strconv.Unquote; non-ASCII identifiers against strings.ToUpper). A change that makes the contracts unbindable is still caught with a concrete input by the mapper-order probe (untyped mappers first, then the token type's own, in registration order, 0-5 untyped mappers).",
   note=TRUST + "strconv.UnquoteChar and strings.ToUpper are function stubs; that strconv.Quote output is accepted by this decoding is strconv's own inverse property (assumed). User mappers are assumed to be functions of their token.",
   ref="DESIGN.md section 4, C18"),
 "C19": dict(level="proof",
   text="Panic-freedom of the struct-tag front end for well-formedness: every parse function of grammar.go is proved to return, on success, a node whose child slots are all non-nil and well-formed (wfc), so that no nil operand reaches visit/validate/buildEBNF/Parse (this is where 'modifier, capture or negation applied to nothing' is rejected); index and slice expressions of GetField, textScannerTransform and the tag lexer are in bounds; the scanner error callback keeps 'literal not terminated'. parseType and indirectType are under contract too: reflect's own preconditions (Elem only on Array/Chan/Map/Pointer/Slice kinds, Implements only with an interface type) are obligations. Totality over tag texts and field types is additionally explored by the bounded Build-totality stand-in (307 000 struct types built with reflect.StructOf against a reference recogniser of the documented tag syntax, plus token-free fields between the pieces, a zoo of 45 field types and misused options; bounded, never counted as proved). The tag lexer's Next is proved to return EOF only after the last field. collectFieldIndexes (append on shared backing arrays, reflection) is explored by the bounded field-index-paths stand-in: every struct shape with up to 2+2 grammar fields around an embedded struct, nested 3/4 deep, against an independent walk.",
   note=TRUST + "structLexer.Peek/Next, parseType and indirectType carry assumed contracts; wfc introduction rules and the list-segment rules for sequences are axioms; termination of the recursive-descent tag parser and completeness ('every documented grammar builds') are not decided.",
   ref="DESIGN.md section 4, C19"),
})

BOUNDED_TECH = "bounded stand-in of a contract the VC generator cannot reach: the contract's runtime meaning is checked exhaustively over a stated finite family on the real code (in-package tests injected with go test -overlay); labelled bounded, not proof"
CHECKS.update({
 "C08": dict(level="exploration", technique=BOUNDED_TECH,
   text="Bounded stand-in (not proof): validate() is compared with the specification 'some reachable production can re-enter itself before consuming a token' (nullable / first-position sets computed as least fixed points, with ~ and lookahead bodies entered without consuming) on every grammar of a finite family of node graphs built directly in-package: tens of thousands of grammars, exhaustively. isLeftRecursive steers a closure-based traversal over a cyclic graph and is outside the VC generator's reach.",
   note="Bound: one production with <= 4 (thorough 5) nodes, two productions with <= 3 nodes each (thorough 3 and 4), over literal, production reference, a union-typed reference, a reference to the EOF token, an untyped \"\" literal, sequence, choice, ? * + !, ~, (?= ), (?! ), capture, redundant parentheses. The consequence 'recursion depth bounded by input length' is a paper lemma. The oracle is an independent fixed-point formulation.",
   ref="DESIGN.md section 4, C08"),
 "C14": dict(level="exploration", technique=BOUNDED_TECH,
   text="Bounded stand-in (not proof): for every grammar of the same finite family (plus a literal that needs escaping) Parser.String() is parsed with the ebnf package; root first, each reachable production defined once, literal / reference / operator counts equal to the grammar's, and print(parse(text)) parses to an equal tree. Language membership and tree equality after a print/parse cycle are not first-order contracts over the printer's code.",
   note="Bound as for C08 (two productions: <= 2 and <= 3 nodes; thorough: one production <= 5, two <= 3 and <= 3). The family includes redundant parentheses; seven further grammars are built with Build from struct tags (union root, union field, anonymous and embedded struct types, ( x* )?, Parseable and custom productions) and checked for the same criteria.",
   ref="DESIGN.md section 4, C14"),
 "C16": dict(level="exploration", technique=BOUNDED_TECH,
   text="Bounded stand-in (not proof): for every rule map of a finite family (all action kinds, include nesting, return, back-references, names and patterns with quotes, backslashes, <>& and non-ASCII) the rule set and the built definition are marshalled to JSON, unmarshalled and rebuilt; rule sets must be structurally equal, symbol tables equal, and token streams / errors equal on 16 inputs; the caller's rule map is edited after New and before the definition is marshalled (the definition owns what it serialises). encoding/json's behaviour cannot usefully be axiomatised for contracts.",
   note="Bound: states Root (1-2 rules over a 9-rule alphabet; thorough 16), A (1-3 rules over a reduced alphabet), thorough adds B. That equal compiled tables give equal behaviour on every input follows from StatefulLexer.Next's contract (C03), which is proved.",
   ref="DESIGN.md section 4, C16"),
 "C09": dict(level="other", technique="frame obligations of the contract framework (deductive, for the 54 runtime functions under contract) + a static provenance scan of every write site reachable at run time + bounded coherence check of the one shared cache; no schedule is explored",
   text="This family has no notion of interleaving; the schedule quantifier is not decided. What is decided is the sufficient condition the promise rests on: in every function reachable from Parse*, Lex*, String, ebnf.Parse*, the lexers' Next and the actions, each store / map update / append / copy / delete has the obligation 'the target is allocated in this function or is per-call state, not (reachable from) a shared Parser, Definition, grammar node or package-level value'. The one shared written structure, the back-reference cache (a sync.Map), is checked by a bounded stand-in for coherence: what it returns is independent of what was asked before. For the 54 runtime functions under contract the same statement is discharged deductively: their 384 frame obligations (every store, map update, copy and callee effect lies inside the function's modifies clause or in memory allocated by the call) are tagged for this property, the modifies clauses are checked to name only per-call memory (parse context, peeking lexer, stateful lexer, position; never a Parser, grammar node or lexer definition), and LexString is proved to give every lexer a freshly allocated state stack.",
   note="Assumed: sync.Map, regexp.Regexp, reflect and text/scanner instances are safe as documented; any use of package-level mutable state (sync.Pool, sync.Map, a map variable) in a function reachable at run time is flagged; the provenance classification is intra-procedural and type-based (a write through an interface or into a value handed out by user code is not seen). No data-race detection, no interleavings.",
   ref="DESIGN.md section 4, C09"),
})

NOT_APPLICABLE = {
 "C05": "relates two programs (generator output vs runtime lexer) for every rule set: translation validation / differential testing, not expressible as contracts on the generator's functions (DESIGN.md section 4, C05)",
}

def main():
    props = [json.loads(l)["id"] for l in open("/verif/properties.jsonl")]
    repo_commits = subprocess.run(["git", "-C", "/repo", "log", "--format=%h %s", "c4ba82b..HEAD"], capture_output=True, text=True).stdout.strip().split("\n")
    hook_commits = [c.split()[0] for c in repo_commits if c and c.split()[1].startswith("verif:")]
    checks = []
    for pid in props:
        if pid not in CHECKS:
            continue
        c = CHECKS[pid]
        checks.append({
            "property_id": pid,
            "quick_cmd": f"./check {pid} quick",
            "thorough_cmd": f"./check {pid} thorough",
            "evidence_file": f"/verif/evidence/{pid}.json",
            "replay_cmd_template": "./check replay {path}",
            "engine": "vcgo",
            "level_claimed": {"category": c["level"], "text": c["text"], "design_ref": c["ref"]},
            "level_note": c["note"],
            "technique": c.get("technique", TECH),
        })
    na = []
    for pid in props:
        if pid in CHECKS:
            continue
        reason = NOT_APPLICABLE.get(pid, "not yet built in this framework (no check registered); see DESIGN.md section 5")
        na.append({"property_id": pid, "reason": reason})
    m = {
        "version": 1,
        "setup_cmd": "./setup.sh",
        "hooks": {
            "guard": "verif",
            "enable": "go build -tags verif (adds comment-only contract files contracts_verif.go / lexer/contracts_verif.go; vcgo loads /repo with -tags=verif)",
            "baseline_off_cmd": "cd /repo && go test -vet=off -count=1 ./...",
            "source_commits": hook_commits,
            "add_only": True,
        },
        "engines": [{"name": "vcgo", "path": "engine", "serves_properties": sorted(CHECKS),
                     "kind_free_text": "self-written VC generator: symbolic execution of go/ssa with contracts (requires/ensures/modifies/loop invariants/decreases/lemmas/call-site assertions) read from //@ comment files behind build tag verif; obligations discharged by z3 4.8.12 / z3 5.1.0 / cvc5 1.0.3"}],
        "checks": checks,
        "notes": "See DESIGN.md. Genuine defects found are repaired by 'fix:' commits in /repo and recorded in known_findings.json.",
        "not_applicable": na,
    }
    json.dump(m, open("/verif/MANIFEST.json", "w"), indent=1)
    print("manifest written:", len(checks), "checks,", len(na), "not applicable")

if __name__ == "__main__":
    main()
