#!/bin/bash
# Builds the VC generator from files on disk only (offline).
set -e
cd "$(dirname "$0")/engine"
export GOFLAGS=-mod=vendor GOPROXY=off GOSUMDB=off GOTOOLCHAIN=local
mkdir -p ../bin
go build -o ../bin/vcgo .
