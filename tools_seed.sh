#!/bin/bash
# usage: tools_seed.sh <patch.diff> <vcgo prove args...> : apply a seeded change to /repo, run vcgo, undo.
p=$1; shift
if [ -n "$(git -C /repo status --short | grep -v "participle$")" ]; then echo "REFUSING: /repo has uncommitted changes"; exit 4; fi
cd /repo && git apply "$p" || { git apply --3way "$p" || { echo "PATCH DOES NOT APPLY"; git checkout -- .; exit 3; }; }
git -C /repo diff --stat | tail -1
/verif/bin/vcgo prove "$@" 2>&1 | grep -E "FAILED|UNDECIDED|total" | cut -c1-260
git -C /repo reset -q; git -C /repo checkout -- . ; git -C /repo status --short | grep -v participle$
