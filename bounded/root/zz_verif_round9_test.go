package participle_test

import (
	"fmt"
	"strings"
	"testing"

	"github.com/alecthomas/participle/v2"
	"github.com/alecthomas/participle/v2/lexer"
)

// Bounded stand-ins added after the ninth round of seeded changes.

// ---- C06 / C17: captures into named string / bool types and slices of them ----

type r9Mod string
type r9Flag bool
type r9Named struct {
	One   r9Mod    `@Ident`
	Many  []r9Mod  `( "," @Ident )*`
	Flag  r9Flag   `@"!"?`
	Flags []r9Flag `( @"?" )*`
}

func TestVerif_C06C17_NamedScalarTypes(t *testing.T) {
	res := &xResult{Check: "named scalar types", Property: "C06 C17", Exhaustive: true,
		Bound: "one grammar capturing into a named string type, a slice of it, a named bool type and a slice of it; 5 inputs",
		Rule: "inputs; all non-trivial"}
	p, err := participle.Build[r9Named]()
	if err != nil {
		res.violate("Build: %v", err)
		res.emit(t)
		return
	}
	for in, want := range map[string]string{"a": "a [] false []", "a , b , c": "a [b c] false []", "a !": "a [] true []", "a , b ! ? ?": "a [b] true [true true]", "a ? ?": "a [] false [true true]"} {
		res.Evaluations++
		res.Distinct++
		func() {
			defer func() {
				if r := recover(); r != nil {
					res.violate("input %q: panic: %v", in, r)
				}
			}()
			v, err := p.ParseString("", in)
			if err != nil {
				res.violate("input %q: %v", in, err)
				return
			}
			if got := fmt.Sprintf("%v %v %v %v", v.One, v.Many, v.Flag, v.Flags); got != want {
				res.violate("input %q: parsed as %s, want %s", in, got, want)
			}
		}()
	}
	res.emit(t)
}

// ---- C09: a parse started while another parse of the same parser is under way (re-entrant use) ----

type r9Hook struct {
	V  string
	fn func()
}

var r9OnCapture func()

func (h *r9Hook) Capture(values []string) error {
	h.V = values[0]
	if r9OnCapture != nil {
		f := r9OnCapture
		r9OnCapture = nil
		f()
	}
	return nil
}

type r9Pair struct {
	Key  string  `@Ident "="`
	Val  r9Hook  `@Ident`
	Unit string  `@Ident?`
	Flag bool    `@"!"?`
	More *r9Pair `( "," @@ )?`
}

func TestVerif_C09_OverlappingParses(t *testing.T) {
	res := &xResult{Check: "overlapping parses", Property: "C09", Exhaustive: true,
		Bound: "one parser, 3 outer inputs x 3 inner inputs: the inner parse runs to completion from inside a Capture method of the outer one (after the outer parse has deferred captures), both compared with fresh parsers",
		Rule: "(outer, inner) pairs; all non-trivial"}
	build := func() *participle.Parser[r9Pair] {
		p, err := participle.Build[r9Pair]()
		if err != nil {
			res.violate("Build: %v", err)
		}
		return p
	}
	show := func(v *r9Pair, err error) string {
		s := ""
		for ; v != nil; v = v.More {
			s += fmt.Sprintf("%s=%s %s %v; ", v.Key, v.Val.V, v.Unit, v.Flag)
		}
		if err != nil {
			s += "ERR " + err.Error()
		}
		return s
	}
	inputs := []string{"a = b km !", "k = v u , x = y z !, p = q", "a = b c d"}
	shared := build()
	if shared == nil {
		res.emit(t)
		return
	}
	for _, outer := range inputs {
		for _, inner := range inputs {
			res.Evaluations++
			res.Distinct++
			wantOuter := show(build().ParseString("", outer))
			wantInner := show(build().ParseString("", inner))
			gotInner := ""
			r9OnCapture = func() { gotInner = show(shared.ParseString("", inner)) }
			gotOuter := show(shared.ParseString("", outer))
			r9OnCapture = nil
			if gotOuter != wantOuter || gotInner != wantInner {
				res.violate("outer %q with %q parsed from inside its Capture method: outer gives %s (alone: %s), inner gives %s (alone: %s)", outer, inner, gotOuter, wantOuter, gotInner, wantInner)
			}
		}
	}
	res.emit(t)
}

// ---- C11: which fields are the node's position fields ----

type r9Meta struct {
	Pos    lexer.Position
	EndPos lexer.Position
	Tokens []lexer.Token
}
type r9Tagged struct {
	Pos    lexer.Position `parser:"" json:"pos"`
	EndPos lexer.Position `parser:"" json:"end"`
	Tokens []lexer.Token  `parser:"" json:"-"`
	Name   string         `@Ident`
}
type r9Recv struct {
	N string `"(" @Ident ")"`
}
type r9NamedMix struct {
	r9Meta
	Name string `@Ident`
}
type r9Call struct {
	Recv *r9Recv `@@?`
	r9NamedMix
	Arg string `"(" @Ident ")"`
}

func TestVerif_C11C19_PositionFieldSelection(t *testing.T) {
	res := &xResult{Check: "position field selection", Property: "C11 C19", Exhaustive: true,
		Bound: "position fields that carry a non-grammar tag (parser:\"\" json:...), and position fields promoted through two levels of embedding next to a pointer-typed first field; 2 inputs each",
		Rule: "(grammar, input) pairs; all non-trivial"}
	pt, err := participle.Build[r9Tagged]()
	if err != nil {
		res.violate("a grammar whose position fields carry parser:\"\" and other keys is rejected: %v", err)
	} else {
		for _, in := range []string{"abc", "  abc"} {
			res.Evaluations++
			res.Distinct++
			v, err := pt.ParseString("", in)
			if err != nil || v.Name != "abc" || len(v.Tokens) != 1 || v.Pos.Offset != strings.Index(in, "a") || v.EndPos.Offset != len(in) {
				res.violate("tagged position fields, input %q: %+v %v", in, v, err)
			}
		}
	}
	pc, err := participle.Build[r9Call]()
	if err != nil {
		res.violate("Build[r9Call]: %v", err)
	} else {
		for _, in := range []string{"f(x)", "(r) f (x)"} {
			res.Evaluations++
			res.Distinct++
			v, err := pc.ParseString("", in)
			if err != nil || v.Name != "f" || v.Arg != "x" || len(v.Tokens) == 0 || v.Pos.Offset != 0 || v.EndPos.Offset != len(in) {
				res.violate("position fields two embeddings deep, input %q: Pos %v EndPos %v %d tokens, Name %q Arg %q, %v", in, v.Pos, v.EndPos, len(v.Tokens), v.Name, v.Arg, err)
			}
		}
	}
	res.emit(t)
}

// ---- C15: Trace does not change what a panic in user code does ----

type r9Boom struct{ V string }

func (b *r9Boom) Parse(lex *lexer.PeekingLexer) error {
	t := lex.Peek()
	if t.EOF() {
		return participle.NextMatch
	}
	if t.Value == "boom" {
		panic("user code panicked")
	}
	b.V = lex.Next().Value
	return nil
}

type r9Booms struct {
	Items []*r9Boom `@@*`
}

func TestVerif_C15_TraceAndPanics(t *testing.T) {
	res := &xResult{Check: "Trace and panics", Property: "C15", Exhaustive: true,
		Bound: "a Parseable that panics on one token, 3 inputs, with and without Trace, ParseString and ParseBytes",
		Rule: "(input, entry point) pairs; non-trivial = the input makes the user code panic"}
	p, err := participle.Build[r9Booms]()
	if err != nil {
		res.violate("Build: %v", err)
		res.emit(t)
		return
	}
	run := func(f func() (*r9Booms, error)) (out string) {
		defer func() {
			if r := recover(); r != nil {
				out = fmt.Sprintf("PANIC %v", r)
			}
		}()
		v, err := f()
		n := 0
		if v != nil {
			n = len(v.Items)
		}
		return fmt.Sprint(n, " ", err)
	}
	for _, in := range []string{"a b", "a boom b", "boom"} {
		for name, pair := range map[string][2]func() (*r9Booms, error){
			"ParseString": {func() (*r9Booms, error) { return p.ParseString("", in) }, func() (*r9Booms, error) { return p.ParseString("", in, participle.Trace(&strings.Builder{})) }},
			"ParseBytes":  {func() (*r9Booms, error) { return p.ParseBytes("", []byte(in)) }, func() (*r9Booms, error) { return p.ParseBytes("", []byte(in), participle.Trace(&strings.Builder{})) }},
		} {
			res.Evaluations++
			if strings.Contains(in, "boom") {
				res.Distinct++
			}
			if a, b := run(pair[0]), run(pair[1]); a != b {
				res.violate("input %q, %s: without Trace %s, with Trace %s", in, name, a, b)
			}
		}
	}
	res.emit(t)
}

// ---- C02 / C10: the first matched token of a capture, when an abandoned attempt matched an elided token by name ----

type r9Head struct {
	Head lexer.Token   `@( ( Comment ";" )? Ident )`
	Run  []lexer.Token `@( ( Comment ";" | Comment "," )? Ident Ident? )`
}

func TestVerif_C02C10_FirstMatchAfterAbandonedAttempt(t *testing.T) {
	res := &xResult{Check: "first match after an abandoned attempt", Property: "C02 C10", Exhaustive: true,
		Bound: "captures into lexer.Token and []lexer.Token fields that begin with an optional group naming an elided token type; 6 inputs, lookahead 1, 2, MaxLookahead, unlimited",
		Rule: "(input, lookahead) pairs; non-trivial = the optional group matches the elided token and is abandoned"}
	lex := lexer.MustSimple([]lexer.SimpleRule{{Name: "Comment", Pattern: `#[^\n]*\n?`}, {Name: "Ident", Pattern: `[a-z]+`}, {Name: "Punct", Pattern: `[;,]`}, {Name: "Whitespace", Pattern: `\s+`}})
	for _, k := range []int{1, 2, participle.MaxLookahead, -1} {
		p, err := participle.Build[r9Head](participle.Lexer(lex), participle.Elide("Comment", "Whitespace"), participle.UseLookahead(k))
		if err != nil {
			res.violate("Build: %v", err)
			break
		}
		for _, in := range []string{"a b c", "#x\na b c", "  #x\n a b c", "#x\n#y\na b", "a #x\nb c d", "#x\n;a b c"} {
			res.Evaluations++
			if strings.HasPrefix(strings.TrimSpace(in), "#") {
				res.Distinct++
			}
			v, err := p.ParseString("", in)
			if err != nil {
				continue
			}
			// Head: the first token the capture matched along the accepted derivation
			words := strings.Fields(strings.NewReplacer("#x\n", " ", "#y\n", " ", ";", " ; ").Replace(in))
			commentConsumed := strings.Contains(in, "\n;")
			wantHead := words[0]
			if commentConsumed {
				wantHead = "#x\n"
			}
			if v.Head.Value != wantHead {
				res.violate("lookahead %d, input %q: the lexer.Token field holds %q; the first token the capture matched is %q", k, in, v.Head.Value, wantHead)
			}
			if len(v.Run) == 0 || strings.HasPrefix(v.Run[0].Value, "#") || strings.TrimSpace(v.Run[0].Value) == "" {
				res.violate("lookahead %d, input %q: the []lexer.Token field begins with %q, a token only an abandoned attempt matched", k, in, v.Run)
			}
		}
	}
	res.emit(t)
}
