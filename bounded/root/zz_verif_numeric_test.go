package participle_test

import (
	"fmt"
	"math"
	"os"
	"strconv"
	"strings"
	"testing"

	"github.com/alecthomas/participle/v2"
	"github.com/alecthomas/participle/v2/lexer"
)

type numG[T any] struct {
	V T `"=" @("-"? Num)`
}
type numPtrG[T any] struct {
	V *T `"=" @("-"? Num)`
}
type numSliceG[T any] struct {
	V []T `"=" (@Num ","?)*`
}
type numMultiG[T any] struct {
	V []T `"=" @( Num Num Num )`
}
// an optional tail that can be entered and abandoned after the numeric capture
type numTailG[T any] struct {
	V T      `"=" @Num`
	W string `( "," "," @Num )?`
}
// the captured text comes out of a mapper (Unquote), so it can be anything, the empty text included
type numQuotedG[T any] struct {
	V T `"=" @Str`
}
// the number is captured through a negation (any token but the terminator)
type numNegG[T any] struct {
	V T `"=" @~"," ","`
}
// the capture starts at the very first token of the input
type numFirstG[T any] struct {
	V T `@("-"? Num)`
}
// numeric captures into a slice of pointers and into a pointer to a pointer
type numPtrSliceG[T any] struct {
	V []*T `"=" (@Num ","?)*`
}
type numPtrPtrG[T any] struct {
	V **T `"=" @Num`
}
type namedI16 int16
type namedF32 float32
type namedI64 int64
type namedU64 uint64
type namedF64 float64

var numLexer = lexer.MustSimple([]lexer.SimpleRule{
	{"Num", `[0-9a-zA-Z_.+][0-9a-zA-Z_.+\-]*`},
	{"Str", `"[^"]*"`},
	{"Punct", `[=,\-]`},
	{"Comment", `/\*[^*]*\*/`},
	{"Whitespace", `\s+`},
})

var numTexts = []string{"0", "1", "127", "128", "255", "256", "32767", "32768", "65535", "65536", "2147483647", "2147483648", "4294967295", "4294967296",
	"9223372036854775807", "9223372036854775808", "18446744073709551615", "18446744073709551616", "0x7f", "0X80", "0b101", "0o17", "017", "1_000", "1__0",
	"1e3", "1.5", "3.5e38", "3.4e38", "1e39", "1e309", "0x1p-2", "abc", "1a", "+5", "inf", "NaN", ".5", "5.", "1e-400", "16777217", "0.1"}

// oracle: what strconv says for kind/bitsize
func numOracle(kind string, bits int, text string) (string, bool) {
	switch kind {
	case "int":
		n, err := strconv.ParseInt(text, 0, bits)
		return fmt.Sprint(n), err == nil
	case "uint":
		n, err := strconv.ParseUint(text, 0, bits)
		return fmt.Sprint(n), err == nil
	default:
		f, err := strconv.ParseFloat(text, bits)
		if bits == 32 {
			return fmt.Sprint(float32(f)), err == nil
		}
		return fmt.Sprint(f), err == nil
	}
}

func numCheck[T any](res *xResult, name, kind string, bits int) {
	p, err := participle.Build[numG[T]](participle.Lexer(numLexer), participle.Elide("Whitespace", "Comment"))
	if err != nil {
		res.violate("Build numG[%s]: %v", name, err)
		return
	}
	pp, err := participle.Build[numPtrG[T]](participle.Lexer(numLexer), participle.Elide("Whitespace", "Comment"))
	if err != nil {
		res.violate("Build numPtrG[%s]: %v", name, err)
		return
	}
	ps, err := participle.Build[numSliceG[T]](participle.Lexer(numLexer), participle.Elide("Whitespace", "Comment"))
	if err != nil {
		res.violate("Build numSliceG[%s]: %v", name, err)
		return
	}
	pm, err := participle.Build[numMultiG[T]](participle.Lexer(numLexer), participle.Elide("Whitespace", "Comment"))
	if err != nil {
		res.violate("Build numMultiG[%s]: %v", name, err)
		return
	}
	pt, err := participle.Build[numTailG[T]](participle.Lexer(numLexer), participle.Elide("Whitespace", "Comment"), participle.UseLookahead(3))
	if err != nil {
		res.violate("Build numTailG[%s]: %v", name, err)
		return
	}
	pq, err := participle.Build[numQuotedG[T]](participle.Lexer(numLexer), participle.Elide("Whitespace", "Comment"), participle.Unquote("Str"))
	if err != nil {
		res.violate("Build numQuotedG[%s]: %v", name, err)
		return
	}
	for _, text := range append([]string{"", " ", "-", "- 1"}, numTexts...) {
		want, ok := numOracle(kind, bits, text)
		input := `="` + text + `"`
		res.Evaluations++
		if !ok {
			res.Distinct++
		}
		vq, err := pq.ParseString("f", input)
		got := "<nil>"
		if vq != nil {
			got = fmt.Sprint(vq.V)
		}
		checkNum(res, name+" from an unquoted string", input, got, err, want, ok)
	}
	pn, err := participle.Build[numNegG[T]](participle.Lexer(numLexer), participle.Elide("Whitespace", "Comment"))
	if err != nil {
		res.violate("Build numNegG[%s]: %v", name, err)
		return
	}
	for _, text := range numTexts {
		want, ok := numOracle(kind, bits, text)
		for _, gap := range []string{"", "  ", " /*c*/ "} {
			input := "=" + gap + text + ","
			res.Evaluations++
			if !ok {
				res.Distinct++
			}
			vn, err := pn.ParseString("f", input)
			got := "<nil>"
			if vn != nil {
				got = fmt.Sprint(vn.V)
			}
			if ok {
				checkNum(res, name+" through a negation", input, got, err, want, ok)
			} else if err == nil {
				res.violate("%s through a negation from %q: stored %s although strconv rejects it", name, input, got)
			} else if perr, isPE := err.(participle.Error); !isPE {
				res.violate("%s through a negation from %q: error %T is not a participle.Error", name, input, err)
			} else if pos := perr.Position(); pos.Offset != 1+len(gap) {
				res.violate("%s through a negation from %q: conversion error located at offset %d, the captured token is at %d", name, input, pos.Offset, 1+len(gap))
			}
		}
	}
	pf, err := participle.Build[numFirstG[T]](participle.Lexer(numLexer), participle.Elide("Whitespace", "Comment"))
	if err != nil {
		res.violate("Build numFirstG[%s]: %v", name, err)
		return
	}
	for _, text := range numTexts {
		for _, neg := range []string{"", "-"} {
			if neg != "" && kind == "uint" && text != "0" {
				continue
			}
			want, ok := numOracle(kind, bits, neg+text)
			res.Evaluations++
			vf, err := pf.ParseString("f", neg+text)
			got := "<nil>"
			if vf != nil {
				got = fmt.Sprint(vf.V)
			}
			if ok {
				checkNum(res, name+" at the start of the input", neg+text, got, err, want, ok)
			} else if err == nil {
				res.violate("%s at the start of the input from %q: stored %s although strconv rejects it", name, neg+text, got)
			} else if perr, isPE := err.(participle.Error); !isPE || perr.Position().Offset != 0 {
				res.violate("%s at the start of the input from %q: conversion error %v is not located at offset 0", name, neg+text, err)
			}
		}
	}
	pps, err1 := participle.Build[numPtrSliceG[T]](participle.Lexer(numLexer), participle.Elide("Whitespace", "Comment"))
	ppp, err2 := participle.Build[numPtrPtrG[T]](participle.Lexer(numLexer), participle.Elide("Whitespace", "Comment"))
	if err1 != nil || err2 != nil {
		res.violate("Build numPtrSliceG / numPtrPtrG [%s]: %v %v", name, err1, err2)
		return
	}
	for _, text := range []string{"1", "7", "300", "abc", "1e39"} {
		want, ok := numOracle(kind, bits, text)
		res.Evaluations += 2
		vs, err := pps.ParseString("f", "="+text+", 7")
		if ok && (err != nil || len(vs.V) != 2 || vs.V[0] == nil || fmt.Sprint(*vs.V[0]) != want) {
			res.violate("%s captured into a slice of pointers from %q: %d elements stored, error %v; strconv gives %s and 7", name, "="+text+", 7", len(vs.V), err, want)
		} else if !ok && err == nil {
			res.violate("%s captured into a slice of pointers from %q: no error although strconv rejects %q", name, "="+text+", 7", text)
		}
		vp2, err := ppp.ParseString("f", "="+text)
		// (a pointer to a pointer is either filled or refused with an error; what must not happen is a silent drop)
		if ok && err == nil && (vp2.V == nil || *vp2.V == nil || fmt.Sprint(**vp2.V) != want) {
			res.violate("%s captured into a pointer to a pointer from %q: nothing stored and no error; strconv gives %s", name, "="+text, want)
		} else if !ok && err == nil {
			res.violate("%s captured into a pointer to a pointer from %q: no error although strconv rejects it", name, "="+text)
		}
	}
	for _, text := range numTexts {
		// a conversion error is reported as such, at the captured token, also when an optional part after it was
		// tried, got further and was abandoned
		if want, ok := numOracle(kind, bits, text); !ok {
			for _, tail := range []string{" , 7", " , , 7", ""} {
				res.Evaluations++
				res.Distinct++
				input := "=" + text + tail
				vt, err := pt.ParseString("f", input)
				got := "<nil>"
				if vt != nil {
					got = fmt.Sprint(vt.V)
				}
				checkNum(res, name+" before an optional tail", input, got, err, want, false)
				if err != nil && !strings.Contains(err.Error(), strconv.Quote(text)) {
					res.violate("%s from %q: the error %q does not name the text that failed to convert", name, input, err)
				}
			}
		}
		for _, neg := range []string{"", "-", "- ", "-/*c*/ "} {
			if neg != "" && kind == "uint" && text != "0" {
				continue
			}
			joined := text
			if neg != "" {
				joined = "-" + text
			}
			want, ok := numOracle(kind, bits, joined)
			input := "=" + neg + text
			res.Evaluations++
			if !ok || neg != "" {
				res.Distinct++
			}
			v, err := p.ParseString("f", input)
			checkNum(res, name, input, fmt.Sprint(v.V), err, want, ok)
			vp, err := pp.ParseString("f", input)
			got := "<nil>"
			if vp != nil && vp.V != nil {
				got = fmt.Sprint(*vp.V)
			}
			checkNum(res, "*"+name, input, got, err, want, ok)
		}
		// slices: each element converted on its own
		want1, ok1 := numOracle(kind, bits, text)
		want2, ok2 := numOracle(kind, bits, "7")
		input := "=" + text + ", 7"
		res.Evaluations++
		vs, err := ps.ParseString("f", input)
		if ok1 && ok2 {
			if err != nil || len(vs.V) != 2 || fmt.Sprint(vs.V[0]) != want1 || fmt.Sprint(vs.V[1]) != want2 {
				res.violate("[]%s from %q: got %v, %v; strconv gives [%s %s]", name, input, vs.V, err, want1, want2)
			}
		} else if err == nil {
			res.violate("[]%s from %q: accepted (%v) although strconv rejects %q", name, input, vs.V, text)
		}
		// one capture that yields several values: each keeps its own value
		if ok1 && ok2 {
			want3, ok3 := numOracle(kind, bits, "1")
			input := "=" + text + " 7 1"
			res.Evaluations++
			vm, err := pm.ParseString("f", input)
			if ok3 && (err != nil || len(vm.V) != 3 || fmt.Sprint(vm.V[0]) != want1 || fmt.Sprint(vm.V[1]) != want2 || fmt.Sprint(vm.V[2]) != want3) {
				res.violate("[]%s from one capture over %q: got %v, %v; strconv gives [%s %s %s]", name, input, vm.V, err, want1, want2, want3)
			}
		}
	}
	if len(res.Samples) < 6 {
		res.Samples = append(res.Samples, fmt.Sprintf("%s: %d texts x {plain, -, '- ', '-/*c*/ '} + slice form", name, len(numTexts)))
	}
}

func checkNum(res *xResult, name, input, got string, err error, want string, ok bool) {
	if ok {
		if err != nil {
			res.violate("%s from %q: error %v although strconv accepts it as %s", name, input, err, want)
		} else if got != want {
			res.violate("%s from %q: stored %s, strconv gives %s", name, input, got, want)
		}
		return
	}
	if err == nil {
		res.violate("%s from %q: stored %s although strconv rejects it", name, input, got)
		return
	}
	perr, isPE := err.(participle.Error)
	if !isPE {
		res.violate("%s from %q: error %T is not a participle.Error", name, input, err)
		return
	}
	// located at the first captured token: offset 1 (right after "=")
	if pos := perr.Position(); pos.Offset != 1 || pos.Line != 1 || pos.Column != 2 || pos.Filename != "f" {
		res.violate("%s from %q: conversion error located at %v, want f:1:2 (the first captured token)", name, input, pos)
	}
}

// TestVerif_C17_NumericOracle: numeric captures agree with strconv for every numeric kind.
func TestVerif_C17_NumericOracle(t *testing.T) {
	res := &xResult{Check: "numeric captures vs strconv", Property: "C17", Exhaustive: true,
		Bound: fmt.Sprintf("%d texts (boundary values of every width, base prefixes, underscores, floats, junk) x {plain, '-' prefix token, '-' then elided whitespace, '-' then elided comment} x 17 field types (all int/uint/float kinds, named int16 / float32 / int64 / uint64 / float64), each as T, *T, []T filled by several captures, []*T and **T (5 texts), []T filled by one capture of three tokens, T followed by optional groups that are entered and abandoned (lookahead 3), T captured through a negation after elided tokens, T captured (with an optional sign token) at the very first token of the input, and T filled from a quoted string through Unquote (so also from the empty text and from text with spaces)", len(numTexts)),
		Rule:  "distinct (field type, input) pairs; non-trivial = strconv rejects the text or several tokens are joined"}
	_ = math.MaxInt8
	_ = os.Getenv
	numCheck[int8](res, "int8", "int", 8)
	numCheck[int16](res, "int16", "int", 16)
	numCheck[int32](res, "int32", "int", 32)
	numCheck[int64](res, "int64", "int", 64)
	numCheck[int](res, "int", "int", strconv.IntSize)
	numCheck[uint8](res, "uint8", "uint", 8)
	numCheck[uint16](res, "uint16", "uint", 16)
	numCheck[uint32](res, "uint32", "uint", 32)
	numCheck[uint64](res, "uint64", "uint", 64)
	numCheck[uint](res, "uint", "uint", strconv.IntSize)
	numCheck[float32](res, "float32", "float", 32)
	numCheck[float64](res, "float64", "float", 64)
	numCheck[namedI16](res, "namedI16", "int", 16)
	numCheck[namedF32](res, "namedF32", "float", 32)
	numCheck[namedI64](res, "namedI64", "int", 64)
	numCheck[namedU64](res, "namedU64", "uint", 64)
	numCheck[namedF64](res, "namedF64", "float", 64)
	res.emit(t)
}
