package participle_test

import (
	"bytes"
	"encoding/json"
	"fmt"
	"io"
	"strings"
	"testing"
	"testing/iotest"

	"github.com/alecthomas/participle/v2"
	"github.com/alecthomas/participle/v2/lexer"
)

// Bounded stand-in for the whole-run side of C15: every entry point of a parser (reader, string, bytes, pre-built
// lexer) gives the same AST and the same error, for plain and mapped lexers, for definitions with and without the
// LexString / LexBytes fast paths, and for readers that deliver their data in unusual ways.

type epItems struct {
	Items []string `( @Ident | @String | @Int | "=" )*`
}

// epDef offers all three entry points of a definition on top of a stateful one.
type epDef struct{ inner *lexer.StatefulDefinition }

func (d epDef) Symbols() map[string]lexer.TokenType { return d.inner.Symbols() }
func (d epDef) Lex(filename string, r io.Reader) (lexer.Lexer, error) {
	return d.inner.Lex(filename, r)
}
func (d epDef) LexString(filename, s string) (lexer.Lexer, error) { return d.inner.LexString(filename, s) }
func (d epDef) LexBytes(filename string, b []byte) (lexer.Lexer, error) {
	return d.inner.LexString(filename, string(b))
}

func TestVerif_C15C18_EntryPoints(t *testing.T) {
	res := &xResult{Check: "entry points", Property: "C15 C18", Exhaustive: false,
		Bound: "3 lexer definitions (stateful, text/scanner, one offering Lex / LexString / LexBytes) x {no mapper, Upper + Unquote mappers} x 11 inputs (valid, lexing error, parse error, leading byte order mark, empty, text that is not valid UTF-8) x 8 entry points (ParseString, ParseBytes, Parse from strings.Reader, one-byte reader, data-with-EOF reader, section reader, ParseFromLexer over the parser's own lexer, Trace on); AllowTrailing and Trace also through ParseBytes and Parse",
		Rule: "(definition, mappers, input) triples; all non-trivial"}
	stateful := lexer.MustSimple([]lexer.SimpleRule{{Name: "Ident", Pattern: `[a-zA-Z_]\w*`}, {Name: "Int", Pattern: `\d+`}, {Name: "String", Pattern: `"(\\.|[^"\\])*"`},
		{Name: "Punct", Pattern: `[=;]`}, {Name: "Whitespace", Pattern: `\s+`}})
	defs := map[string]lexer.Definition{"stateful": stateful, "text/scanner": lexer.TextScannerLexer, "all-entry-points": epDef{stateful}}
	inputs := []string{"", "a b 12", `x = "q\n" y`, "a ? b", `a "unterminated`, "a ; b", "\ufeffa b", "a\n\n  b = 3\n", strings.Repeat("ab ", 3000), "x = \"caf\xe9\" y", "a \xff b"}
	render := func(v *epItems, err error) string {
		b, _ := json.Marshal(v)
		if err != nil {
			return string(b) + " ERR " + err.Error()
		}
		return string(b)
	}
	for dn, def := range defs {
		for _, mapped := range []bool{false, true} {
			opts := []participle.Option{participle.Lexer(def)}
			if dn != "text/scanner" {
				opts = append(opts, participle.Elide("Whitespace"))
			}
			if mapped {
				opts = append(opts, participle.Upper("Ident"), participle.Unquote("String"))
			}
			p, err := participle.Build[epItems](opts...)
			if err != nil {
				res.violate("Build(%s, mapped=%v): %v", dn, mapped, err)
				continue
			}
			for _, in := range inputs {
				res.Evaluations++
				res.Distinct++
				desc := fmt.Sprintf("%s lexer, mappers=%v, input %q", dn, mapped, in)
				if len(in) > 40 {
					desc = fmt.Sprintf("%s lexer, mappers=%v, input of %d bytes", dn, mapped, len(in))
				}
				func() {
					defer func() {
						if r := recover(); r != nil {
							res.violate("%s: panic: %v", desc, r)
						}
					}()
					want := render(p.ParseString("f", in))
					got := map[string]string{
						"ParseBytes":                 render(p.ParseBytes("f", []byte(in))),
						"Parse(strings.Reader)":      render(p.Parse("f", strings.NewReader(in))),
						"Parse(one byte at a time)":  render(p.Parse("f", iotest.OneByteReader(strings.NewReader(in)))),
						"Parse(data with EOF)":       render(p.Parse("f", iotest.DataErrReader(strings.NewReader(in)))),
						"Parse(section reader)":      render(p.Parse("f", io.NewSectionReader(bytes.NewReader([]byte(in)), 0, int64(len(in))+10))),
						"ParseString with Trace":     render(p.ParseString("f", in, participle.Trace(io.Discard))),
					}
					// ParseFromLexer over the parser's own lexer
					if lx, lerr := p.Lexer().Lex("f", strings.NewReader(in)); lerr == nil {
						var elided []lexer.TokenType
						if dn != "text/scanner" {
							elided = append(elided, p.Lexer().Symbols()["Whitespace"])
						}
						if pl, uerr := lexer.Upgrade(lx, elided...); uerr == nil {
							got["ParseFromLexer"] = render(p.ParseFromLexer(pl))
						} else {
							// a lexing error surfaces when the tokens are collected; the other entry points report it too
							if !strings.Contains(want, "ERR") {
								res.violate("%s: Upgrade over the parser's lexer fails (%v) although ParseString succeeds", desc, uerr)
							}
						}
					}
					// the same with options: every entry point hands them on
					wantT := render(p.ParseString("f", in+" zz", participle.AllowTrailing(true)))
					for name, g := range map[string]string{
						"ParseBytes with AllowTrailing": render(p.ParseBytes("f", []byte(in+" zz"), participle.AllowTrailing(true))),
						"Parse with AllowTrailing":      render(p.Parse("f", strings.NewReader(in+" zz"), participle.AllowTrailing(true))),
					} {
						if g != wantT {
							res.violate("%s followed by \" zz\": %s gives %s, ParseString with AllowTrailing gives %s", desc, name, g, wantT)
						}
					}
					var tb, ts bytes.Buffer
					_, _ = p.ParseString("f", in, participle.Trace(&ts))
					_, _ = p.ParseBytes("f", []byte(in), participle.Trace(&tb))
					if tb.String() != ts.String() {
						res.violate("%s: ParseBytes with Trace writes %d bytes of trace, ParseString %d", desc, tb.Len(), ts.Len())
					}
					for name, g := range got {
						if g != want {
							res.violate("%s: %s gives %s, ParseString gives %s", desc, name, g, want)
						}
					}
					// Parser.Lex returns the tokens those calls consume
					toks, lerr := p.Lex("f", strings.NewReader(in))
					toks2, lerr2 := p.Lex("f", iotest.DataErrReader(strings.NewReader(in)))
					if fmt.Sprint(toks, lerr) != fmt.Sprint(toks2, lerr2) {
						res.violate("%s: Parser.Lex differs between readers: %v %v vs %v %v", desc, toks, lerr, toks2, lerr2)
					}
				}()
			}
		}
	}
	// definitions: Lex, LexString and LexBytes yield identical token streams
	for dn, def := range defs {
		sd, hasS := def.(lexer.StringDefinition)
		bd, hasB := def.(lexer.BytesDefinition)
		for _, in := range inputs {
			res.Evaluations++
			stream := func(l lexer.Lexer, err error) string {
				if err != nil {
					return "ERR " + err.Error()
				}
				toks, err := lexer.ConsumeAll(l)
				return fmt.Sprint(toks, err)
			}
			want := stream(def.Lex("f", strings.NewReader(in)))
			if g := stream(def.Lex("f", iotest.DataErrReader(strings.NewReader(in)))); g != want {
				res.violate("%s definition, input %q: Lex over a reader that returns data together with EOF gives %s, over strings.Reader %s", dn, in, g, want)
			}
			if g := stream(def.Lex("f", iotest.OneByteReader(strings.NewReader(in)))); g != want {
				res.violate("%s definition, input %q: Lex over a one-byte reader gives %s, over strings.Reader %s", dn, in, g, want)
			}
			if hasS {
				if g := stream(sd.LexString("f", in)); g != want {
					res.violate("%s definition, input %q: LexString gives %s, Lex %s", dn, in, g, want)
				}
			}
			if hasB {
				if g := stream(bd.LexBytes("f", []byte(in))); g != want {
					res.violate("%s definition, input %q: LexBytes gives %s, Lex %s", dn, in, g, want)
				}
			}
		}
	}
	res.emit(t)
}
