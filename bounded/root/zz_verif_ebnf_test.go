package participle_test

import (
	"strconv"
	"encoding/json"
	"fmt"
	"os"
	"reflect"
	"sort"
	"strings"
	"testing"

	"github.com/alecthomas/participle/v2"
	"github.com/alecthomas/participle/v2/ebnf"
	"github.com/alecthomas/participle/v2/lexer"
)

type xResult struct {
	Check       string   `json:"check"`
	Property    string   `json:"property"`
	Bound       string   `json:"bound"`
	Evaluations int      `json:"evaluations"`
	Distinct    int      `json:"distinct_nontrivial"`
	Rule        string   `json:"rule"`
	Samples     []string `json:"samples"`
	Violations  []string `json:"violations"`
	Exhaustive  bool     `json:"exhaustive"`
}

func (r *xResult) violate(format string, args ...interface{}) {
	if len(r.Violations) < 50 {
		r.Violations = append(r.Violations, fmt.Sprintf(format, args...))
	}
}
func (r *xResult) emit(t *testing.T) {
	sort.Strings(r.Violations)
	b, _ := json.Marshal(r)
	fmt.Printf("VERIF-RESULT %s\n", b)
	if len(r.Violations) > 0 {
		t.Errorf("%s: %d violations, first: %s", r.Check, len(r.Violations), r.Violations[0])
	}
}

type ebnfCounts struct {
	literals, names int
	ops             map[string]int
	texts           map[string]int // literal texts as printed (quoted)
}

func countExpr(e *ebnf.Expression, c *ebnfCounts) {
	for _, alt := range e.Alternatives {
		for _, term := range alt.Terms {
			if term.Negation {
				c.ops["~"]++
			}
			if term.Repetition != "" {
				c.ops[term.Repetition]++
			}
			switch {
			case term.Name != "":
				c.names++
			case fmt.Sprint(term.Literal) != "":
				c.literals++
				if c.texts != nil {
					c.texts[fmt.Sprint(term.Literal)]++
				}
			case term.Group != nil:
				switch term.Group.Lookahead {
				case ebnf.LookaheadAssertionPositive:
					c.ops["(?="]++
				case ebnf.LookaheadAssertionNegative:
					c.ops["(?!"]++
				}
				countExpr(term.Group.Expr, c)
			}
		}
	}
}

// TestVerif_C14_EBNF: Parser.String() of every grammar of the bounded family is EBNF the ebnf package parses,
// with the root first, every production defined once, every literal / reference / operator present, and the
// parsed tree survives print + parse unchanged.
func TestVerif_C14_EBNF(t *testing.T) {
	res := &xResult{Check: "Parser.String EBNF", Property: "C14", Exhaustive: true,
		Bound: "the grammar family of the C08 stand-in: one production with <= 4 nodes, two productions with <= 2 and <= 3 nodes (thorough: one production <= 5, two productions <= 3 and <= 3) over {literal \"x\", literal a\"\\b%d\\ (needs escaping, holds a formatting verb, ends in a backslash), production, sequence, choice, ? * + !, ~, (?= ), (?! ), capture, redundant parentheses}; plus 10 grammars built with Build from struct tags (one with type names starting with a non-ASCII letter): union root, union field, anonymous and embedded struct types, Parseable and custom productions, ( x* )?",
		Rule: "distinct grammars; non-trivial = contains a modifier, ~ or a lookahead group"}
	one, twoA, twoB := 4, 2, 3
	if os.Getenv("VERIF_TIER") == "thorough" {
		one, twoA = 5, 3
	}
	participle.VerifEnumGrammars(one, twoA, twoB, func(g participle.VerifGrammar) {
		res.Evaluations++
		nontrivial := false
		for _, n := range g.Ops {
			if n > 0 {
				nontrivial = true
			}
		}
		if nontrivial {
			res.Distinct++
		}
		if g.Panic != "" {
			res.violate("String() panicked for %s: %s", g.Desc, g.Panic)
			return
		}
		tree, err := ebnf.ParseString(g.EBNF)
		if err != nil {
			res.violate("not parseable EBNF for %s: %q: %v", g.Desc, g.EBNF, err)
			return
		}
		if len(tree.Productions) == 0 || tree.Productions[0].Production != "VP0" {
			res.violate("root production is not first for %s: %q", g.Desc, g.EBNF)
			return
		}
		defined := map[string]int{}
		c := &ebnfCounts{ops: map[string]int{}, texts: map[string]int{}}
		for _, p := range tree.Productions {
			defined[p.Production]++
			countExpr(p.Expression, c)
		}
		// the literals are the grammar's own, character for character
		for txt := range c.texts {
			u, uerr := strconv.Unquote(txt)
			if uerr != nil || (u != "x" && u != "a\"  \\b%d\\") {
				res.violate("literal %s in the printed grammar is not one of the grammar's literals (%q, %q): %s: %q", txt, "x", "a\"  \\b%d\\", g.Desc, g.EBNF)
			}
		}
		for n, k := range defined {
			if k != 1 {
				res.violate("production %s defined %d times for %s: %q", n, k, g.Desc, g.EBNF)
			}
		}
		if len(defined) != g.Prods {
			res.violate("%d productions printed, grammar has %d reachable: %s: %q", len(defined), g.Prods, g.Desc, g.EBNF)
		}
		if c.literals != g.Literals || c.names != g.ProdRefs {
			res.violate("literals/references lost or duplicated (%d/%d printed, %d/%d in grammar): %s: %q", c.literals, c.names, g.Literals, g.ProdRefs, g.Desc, g.EBNF)
		}
		for _, op := range []string{"~", "?", "*", "+", "!", "(?=", "(?!"} {
			if c.ops[op] != g.Ops[op] {
				res.violate("operator %s: %d printed, %d in grammar: %s: %q", op, c.ops[op], g.Ops[op], g.Desc, g.EBNF)
			}
		}
		// round trip of the parsed tree
		again, err := ebnf.ParseString(tree.String())
		if err != nil {
			res.violate("printed tree does not parse for %s: %q: %v", g.Desc, tree.String(), err)
			return
		}
		if !reflect.DeepEqual(tree, again) {
			res.violate("print/parse round trip changed the tree for %s: %q vs %q", g.Desc, g.EBNF, tree.String())
		}
		if res.Evaluations%1499 == 1 && len(res.Samples) < 6 {
			res.Samples = append(res.Samples, g.Desc+" => "+strings.ReplaceAll(g.EBNF, "\n", " "))
		}
	})
	ebnfNamedCases(res)
	res.emit(t)
}

// ---- grammars built by Build from struct tags ----

type (
	ebUnion interface{ ebU() }
	ebUA    struct {
		A string `@Ident`
	}
	ebUB struct {
		B string  `"(" @Int`
		C ebUnion `@@ ")"`
	}
	ebUnionField struct {
		U []ebUnion `@@+`
		V ebUnion   `( "," @@ )?`
	}
	ebAnon struct {
		A struct {
			C string `@Ident`
		} `@@`
		B []struct {
			C string `@Int`
			D *struct {
				E string `@String`
			} `@@?`
		} `@@*`
	}
	ebEmbedded struct {
		ebUA
		Rest []ebUA `( "," @@ )*`
	}
	ebParens struct {
		A []string `( @Ident* )? ( ( "a"+ ) )! ( ( "x" ( @Int+ ) ) )?`
	}
	ebParseable struct{ V string }
	ebCustom    interface{ ebC() }
	ebCustomV   struct{ V string }
	ebUser      struct {
		P ebParseable `@@`
		C ebCustom    `( ":" @@ )?`
	}
)

type ebUC struct {
	C string `"<" @Ident ">"`
}

func (ebUC) ebU() {}
func (ebUA) ebU() {}
func (ebUB) ebU() {}
func (ebCustomV) ebC() {}
func (p *ebParseable) Parse(lex *lexer.PeekingLexer) error {
	p.V = lex.Next().Value
	return nil
}

func ebnfCase[G any](res *xResult, userCode map[string]bool, options ...participle.Option) {
	name := fmt.Sprintf("%T", new(G))
	res.Evaluations++
	res.Distinct++
	var text string
	var perr error
	func() {
		defer func() {
			if r := recover(); r != nil {
				perr = fmt.Errorf("panic: %v", r)
			}
		}()
		p, err := participle.Build[G](options...)
		if err != nil {
			perr = fmt.Errorf("Build: %v", err)
			return
		}
		text = p.String()
	}()
	if perr != nil {
		res.violate("String() of the tag-built grammar %s: %v", name, perr)
		return
	}
	tree, err := ebnf.ParseString(text)
	if err != nil {
		res.violate("not parseable EBNF for the tag-built grammar %s: %q: %v", name, text, err)
		return
	}
	rootName := name[strings.LastIndex(name, ".")+1:]
	fr := []rune(rootName)
	rootName = strings.ToUpper(string(fr[:1])) + string(fr[1:])
	if len(tree.Productions) == 0 || tree.Productions[0].Production != rootName {
		res.violate("root production %s is not first for the tag-built grammar %s: %q", rootName, name, text)
	}
	defined := map[string]int{}
	for _, p := range tree.Productions {
		defined[p.Production]++
	}
	for n, k := range defined {
		if k != 1 {
			res.violate("production %s defined %d times for the tag-built grammar %s: %q", n, k, name, text)
		}
	}
	var refs func(e *ebnf.Expression)
	refs = func(e *ebnf.Expression) {
		for _, alt := range e.Alternatives {
			for _, term := range alt.Terms {
				if term.Name != "" && defined[term.Name] == 0 && !userCode[term.Name] {
					res.violate("production %s is referenced but not defined for the tag-built grammar %s: %q", term.Name, name, text)
				}
				if term.Group != nil {
					refs(term.Group.Expr)
				}
			}
		}
	}
	for _, p := range tree.Productions {
		refs(p.Expression)
	}
	again, err := ebnf.ParseString(tree.String())
	if err != nil {
		res.violate("printed tree does not parse for the tag-built grammar %s: %q: %v", name, tree.String(), err)
		return
	}
	if !reflect.DeepEqual(tree, again) {
		res.violate("print/parse round trip changed the tree for the tag-built grammar %s: %q vs %q", name, text, tree.String())
	}
	if len(res.Samples) < 8 {
		res.Samples = append(res.Samples, name+" => "+strings.ReplaceAll(text, "\n", " "))
	}
}

type ébauche struct {
	A string    `@Ident`
	B *élément `@@?`
}
type élément struct {
	C string `"," @Ident`
}
type ebAnyText struct {
	K string `@"":Ident "="`
	V string `@"":Int`
}
type ebAnyCustom struct {
	K string `@Ident "="`
	V any    `@@`
}

func ebnfNamedCases(res *xResult) {
	union := participle.Union[ebUnion](ebUA{}, ebUB{})
	ebnfCase[ebUnion](res, nil, union)
	ebnfCase[ebUnionField](res, nil, union)
	ebnfCase[ebUB](res, nil, union)
	ebnfCase[ebAnon](res, nil)
	ebnfCase[ebEmbedded](res, nil)
	ebnfCase[ebParens](res, nil)
	// the same root type built again with other options: String() describes the parser it is called on
	p2, err := participle.Build[ebUnionField](participle.Union[ebUnion](ebUA{}, ebUB{}, ebUC{}))
	res.Evaluations++
	if err != nil {
		res.violate("Build[ebUnionField] with three union members: %v", err)
	} else if text := p2.String(); !strings.Contains(text, "EbUC = ") || !strings.Contains(text, "EbUA | EbUB | EbUC") {
		res.violate("String() of a second parser for the same root type with another Union option does not describe that parser: %q", text)
	}
	ebnfCase[ébauche](res, nil)
	// a literal that stands for any text of a token type, and a custom production of an unnamed interface type
	ebnfCase[ebAnyText](res, nil)
	ebnfCase[ebAnyCustom](res, map[string]bool{"Anon1": true, "Anon2": true, "Anon3": true},
		participle.ParseTypeWith(func(lex *lexer.PeekingLexer) (any, error) { return lex.Next().Value, nil }))
	if p, err := participle.Build[ebAnyText](); err == nil {
		res.Evaluations++
		if tree, err := ebnf.ParseString(p.String()); err == nil && len(tree.Productions) > 0 {
			c := &ebnfCounts{ops: map[string]int{}}
			countExpr(tree.Productions[0].Expression, c)
			if c.literals != 3 {
				res.violate("the grammar of ebAnyText (`@\"\":Ident \"=\" @\"\":Int`) prints as %q: %d literals, the tags have 3", p.String(), c.literals)
			}
		}
	}
	// ... whose reference must not get lost: the root has exactly one production reference, after the "="
	if p, err := participle.Build[ebAnyCustom](participle.ParseTypeWith(func(lex *lexer.PeekingLexer) (any, error) { return lex.Next().Value, nil })); err == nil {
		res.Evaluations++
		if tree, err := ebnf.ParseString(p.String()); err == nil && len(tree.Productions) > 0 {
			c := &ebnfCounts{ops: map[string]int{}}
			countExpr(tree.Productions[0].Expression, c)
			if c.names != 1 || c.literals != 1 {
				res.violate("the grammar of ebAnyCustom prints as %q: %d production references and %d literals in the root, the tag has 1 and 1", p.String(), c.names, c.literals)
			}
		}
	}
	ebnfCase[ebUser](res, map[string]bool{"EbParseable": true, "ebParseable": true, "EbCustom": true},
		participle.ParseTypeWith(func(lex *lexer.PeekingLexer) (ebCustom, error) { return ebCustomV{V: lex.Next().Value}, nil }))
}
