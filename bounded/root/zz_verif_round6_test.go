package participle_test

import (
	"bytes"
	"fmt"
	"strings"
	"testing"

	"github.com/alecthomas/participle/v2"
	"github.com/alecthomas/participle/v2/ebnf"
	"github.com/alecthomas/participle/v2/lexer"
)

// Bounded stand-ins added after the sixth round of seeded changes: scenarios none of the enumerated families has.

// ---- C08: every Build validates the grammar it built (the verdict depends on the options, not on the root type) ----

type r6Term interface{ r6Term() }
type r6Num struct {
	V string `@Int`
}
type r6Suffixed struct {
	T    r6Term `@@`
	Bang string `@"!"`
}
type r6Expr struct {
	T r6Term `@@`
}

func (r6Num) r6Term()      {}
func (r6Suffixed) r6Term() {}

func TestVerif_C08_BuildRevalidates(t *testing.T) {
	res := &xResult{Check: "Build validates every production", Property: "C08", Exhaustive: true,
		Bound: "one root type built 4 times in one process with two Union member lists (acyclic; left-recursive through the union) in both orders; a root that does not reach the union, with a left-recursive and with a sound member list",
		Rule: "builds; all non-trivial"}
	ok := func() error { _, err := participle.Build[r6Expr](participle.Union[r6Term](r6Num{})); return err }
	bad := func() error {
		_, err := participle.Build[r6Expr](participle.Union[r6Term](r6Suffixed{}, r6Num{}))
		return err
	}
	for i, step := range []struct {
		name string
		f    func() error
		want bool
	}{{"acyclic", ok, true}, {"left-recursive", bad, false}, {"acyclic again", ok, true}, {"left-recursive again", bad, false}} {
		res.Evaluations++
		res.Distinct++
		err := step.f()
		if (err == nil) != step.want {
			res.violate("build %d (%s members): error %v", i+1, step.name, err)
		}
	}
	// a left-recursive root is rejected also when Union options are present (every verdict counts, not the last one)
	res.Evaluations++
	res.Distinct++
	if _, err := participle.Build[r6LeftRec](participle.Union[r6Term](r6Num{})); err == nil {
		res.violate("Build accepts a left-recursive root grammar when a (sound) Union option is given as well")
	}
	// productions the root does not reach are entry points too (ParserForProduction): they are validated as well
	res.Evaluations++
	res.Distinct++
	if p, err := participle.Build[r6Plain](participle.Union[r6Term](r6Suffixed{}, r6Num{})); err == nil {
		res.violate("Build accepts a left-recursive union production that the root does not reach (ParserForProduction could start at it)")
		_ = p
	}
	res.Evaluations++
	if p, err := participle.Build[r6Plain](participle.Union[r6Term](r6Num{})); err != nil {
		res.violate("Build rejects a grammar with a sound union the root does not reach: %v", err)
	} else if q, err := participle.ParserForProduction[r6Num](p); err != nil {
		res.violate("ParserForProduction on an unreached union member: %v", err)
	} else if v, err := q.ParseString("", "7"); err != nil || v.V != "7" {
		res.violate("parser for an unreached union member: %v %v", v, err)
	}
	res.emit(t)
}

type r6Plain struct {
	A string `@Ident`
}
type r6LeftRec struct {
	L *r6LeftRec `@@`
	T r6Term     `"+" @@`
}

// ---- C14: a grammar with more productions than any other in the families ----

type r6S1 struct {
	V string `"s1" @Ident`
}
type r6S2 struct {
	V string `"s2" @Ident`
}
type r6S3 struct {
	V string `"s3" @Ident`
}
type r6S4 struct {
	V string `"s4" @Ident`
}
type r6S5 struct {
	V string `"s5" @Ident`
}
type r6S6 struct {
	V string `"s6" @Ident`
}
type r6S7 struct {
	V string `"s7" @Ident`
}
type r6S8 struct {
	V string `"s8" @Ident`
}
type r6S9 struct {
	V string `"s9" @Ident`
}
type r6S10 struct {
	V string `"s10" @Ident`
}
type r6S11 struct {
	V string `"s11" @Ident`
}
type r6S12 struct {
	V string `"s12" @Ident`
}
type r6S13 struct {
	V string `"s13" @Ident`
}
type r6S14 struct {
	V string `"s14" @Ident`
}
type r6S15 struct {
	V string `"s15" @Ident`
}
type r6S16 struct {
	V string `"s16" @Ident`
}
type r6S17 struct {
	V string `"s17" @Ident`
}
type r6S18 struct {
	V string `"s18" @Ident`
}
type r6S19 struct {
	V string `"s19" @Ident`
}
type r6S20 struct {
	V string `"s20" @Ident`
}
type r6Big struct {
	F1 *r6S1 `@@?`
	F2 *r6S2 `@@?`
	F3 *r6S3 `@@?`
	F4 *r6S4 `@@?`
	F5 *r6S5 `@@?`
	F6 *r6S6 `@@?`
	F7 *r6S7 `@@?`
	F8 *r6S8 `@@?`
	F9 *r6S9 `@@?`
	F10 *r6S10 `@@?`
	F11 *r6S11 `@@?`
	F12 *r6S12 `@@?`
	F13 *r6S13 `@@?`
	F14 *r6S14 `@@?`
	F15 *r6S15 `@@?`
	F16 *r6S16 `@@?`
	F17 *r6S17 `@@?`
	F18 *r6S18 `@@?`
	F19 *r6S19 `@@?`
	F20 *r6S20 `@@?`
	End string `"end" @Ident`
}

func TestVerif_C14_ManyProductions(t *testing.T) {
	res := &xResult{Check: "EBNF of a large grammar", Property: "C14", Exhaustive: true,
		Bound: "one grammar of 21 productions (a root referring to 20 sub-productions, then a literal)",
		Rule: "grammars; non-trivial"}
	res.Evaluations, res.Distinct = 1, 1
	p, err := participle.Build[r6Big]()
	if err != nil {
		res.violate("Build: %v", err)
		res.emit(t)
		return
	}
	text := p.String()
	tree, err := ebnf.ParseString(text)
	if err != nil {
		res.violate("Parser.String() is not EBNF the ebnf package parses: %v: %q", err, text)
		res.emit(t)
		return
	}
	if len(tree.Productions) != 21 || tree.Productions[0].Production != "R6Big" {
		res.violate("%d productions printed (first %q), the grammar has 21 with R6Big first", len(tree.Productions), tree.Productions[0].Production)
	}
	root := strings.SplitN(text, "\n", 2)[0]
	for i := 1; i <= 20; i++ {
		if !strings.Contains(root+" ", fmt.Sprintf("R6S%d?", i)) {
			res.violate("the root production does not refer to R6S%d: %q", i, root)
		}
		if !strings.Contains(text, fmt.Sprintf("\"s%d\"", i)) {
			res.violate("the literal \"s%d\" is missing from %q", i, text)
		}
	}
	if !strings.Contains(root, `"end"`) {
		res.violate("the root production lost its literal \"end\": %q", root)
	}
	again, err := ebnf.ParseString(tree.String())
	if err != nil || again.String() != tree.String() {
		res.violate("print/parse round trip of the tree fails: %v", err)
	}
	res.emit(t)
}

// ---- C15: Trace changes nothing but the trace output, however deep the grammar nests ----

type r6Nest struct {
	Inner *r6Nest `  "(" @@ ")"`
	Leaf  string  `| @Ident`
}

func r6Depth(n *r6Nest) int {
	d := 0
	for ; n != nil; n = n.Inner {
		d++
	}
	return d
}

func TestVerif_C15_TraceDeep(t *testing.T) {
	res := &xResult{Check: "Trace on deep nesting", Property: "C15", Exhaustive: true,
		Bound: "one recursive grammar, inputs nested 1, 50, 600 and 2500 deep, through ParseString, ParseBytes and Parse, with and without Trace",
		Rule: "(depth, entry point) pairs; non-trivial = depth >= 600"}
	p, err := participle.Build[r6Nest]()
	if err != nil {
		res.violate("Build: %v", err)
		res.emit(t)
		return
	}
	for _, d := range []int{1, 50, 600, 2500} {
		in := strings.Repeat("(", d) + "x" + strings.Repeat(")", d)
		plain, perr := p.ParseString("", in)
		if perr != nil || r6Depth(plain) != d+1 {
			res.violate("depth %d without Trace: %v", d, perr)
			continue
		}
		for name, f := range map[string]func(opts ...participle.ParseOption) (*r6Nest, error){
			"ParseString": func(o ...participle.ParseOption) (*r6Nest, error) { return p.ParseString("", in, o...) },
			"ParseBytes":  func(o ...participle.ParseOption) (*r6Nest, error) { return p.ParseBytes("", []byte(in), o...) },
			"Parse":       func(o ...participle.ParseOption) (*r6Nest, error) { return p.Parse("", strings.NewReader(in), o...) },
		} {
			res.Evaluations++
			if d >= 600 {
				res.Distinct++
			}
			var w bytes.Buffer
			v, err := f(participle.Trace(&w))
			if err != nil || r6Depth(v) != d+1 {
				res.violate("depth %d, %s with Trace: error %v, depth of the AST %d; without Trace the parse succeeds with depth %d", d, name, err, r6Depth(v), d+1)
			}
		}
	}
	res.emit(t)
}

// ---- C18: an untyped mapper sees every token, whatever the lexer calls it ----

type r6Call struct {
	Name string   `@Ident "("`
	Args []string `( @( Ident | String | Int ) ","? )* ")"`
}

func TestVerif_C18_UntypedMapperAllTokens(t *testing.T) {
	res := &xResult{Check: "untyped mapper", Property: "C18", Exhaustive: true,
		Bound: "the text/scanner lexer (punctuation tokens carry their rune as type, not a declared symbol) and a stateful lexer, one untyped Map() option, 2 inputs, through Parser.Lex and ParseString",
		Rule: "(lexer, input) pairs; all non-trivial"}
	st := lexer.MustSimple([]lexer.SimpleRule{{Name: "Ident", Pattern: `[a-z]+`}, {Name: "Int", Pattern: `\d+`}, {Name: "String", Pattern: `"[^"]*"`}, {Name: "Punct", Pattern: `[(),]`}, {Name: "whitespace", Pattern: `\s+`}})
	for lname, opts := range map[string][]participle.Option{"text/scanner": nil, "stateful": {participle.Lexer(st)}} {
		var seen []string
		mapper := func(tk lexer.Token) (lexer.Token, error) {
			if !tk.EOF() {
				seen = append(seen, tk.Value)
			}
			return tk, nil
		}
		p, err := participle.Build[r6Call](append(append([]participle.Option{}, opts...), participle.Map(mapper))...)
		if err != nil {
			res.violate("%s: Build: %v", lname, err)
			continue
		}
		for _, in := range []string{`f(a, "b c", 42)`, `g()`} {
			res.Evaluations++
			res.Distinct++
			seen = nil
			toks, lerr := p.Lex("", strings.NewReader(in))
			if lerr != nil {
				res.violate("%s: Lex(%q): %v", lname, in, lerr)
				continue
			}
			var all []string
			for _, tk := range toks {
				if !tk.EOF() {
					all = append(all, tk.Value)
				}
			}
			if fmt.Sprint(seen) != fmt.Sprint(all) {
				res.violate("%s lexer, input %q: the untyped mapper saw %q, the token stream is %q", lname, in, seen, all)
			}
			seen = nil
			if _, perr := p.ParseString("", in); perr != nil {
				res.violate("%s: ParseString(%q): %v", lname, in, perr)
			} else if fmt.Sprint(seen) != fmt.Sprint(all) {
				res.violate("%s lexer, input %q (ParseString): the untyped mapper saw %q, the token stream is %q", lname, in, seen, all)
			}
		}
	}
	res.emit(t)
}

// ---- C10: trailing elided tokens are no different from the end of the input (F31) ----

type r7Opt struct {
	X string `@Ident`
	V string `( @"a"? | @"b" )`
	W string `( @"c" | @"d"? )`
}

func TestVerif_C10_TrailingElidedAtChoice(t *testing.T) {
	res := &xResult{Check: "choice at the end of the input", Property: "C10", Exhaustive: true,
		Bound: "one grammar whose choices have an alternative that can match nothing, inputs of <= 3 words over {x, a, b, c, d} in 4 spacings (none, trailing blank, trailing newline, trailing comment), lookahead 1 and unlimited",
		Rule: "(input, spacing, lookahead) triples; non-trivial = the input ends in an elided token"}
	lex := lexer.MustSimple([]lexer.SimpleRule{{Name: "Ident", Pattern: `[a-z]+`}, {Name: "Comment", Pattern: `#[^\n]*`}, {Name: "Whitespace", Pattern: `\s+`}})
	words := []string{"x", "a", "b", "c", "d"}
	var inputs [][]string
	for _, a := range words {
		inputs = append(inputs, []string{a})
		for _, b := range words {
			inputs = append(inputs, []string{a, b})
			for _, c := range words {
				inputs = append(inputs, []string{a, b, c})
			}
		}
	}
	for _, k := range []int{1, -1} {
		p, err := participle.Build[r7Opt](participle.Lexer(lex), participle.Elide("Comment", "Whitespace"), participle.UseLookahead(k))
		if err != nil {
			res.violate("Build: %v", err)
			break
		}
		run := func(in string) (out string) {
			defer func() {
				if r := recover(); r != nil {
					out = fmt.Sprintf("PANIC %v", r)
				}
			}()
			v, err := p.ParseString("", in)
			if err != nil {
				return "error"
			}
			return fmt.Sprintf("%+v", *v)
		}
		for _, ws := range inputs {
			base := strings.Join(ws, " ")
			want := run(base)
			for _, tail := range []string{" ", "\n", " # c", "  \n\n"} {
				res.Evaluations++
				res.Distinct++
				if got := run(base + tail); got != want {
					res.violate("lookahead %d: %q gives %s, %q gives %s", k, base, want, base+tail, got)
				}
			}
		}
	}
	res.emit(t)
}

// ---- C13 / C01: an alternative that parses itself and gives up after reading ahead ----

type r7Pair struct {
	K, V string
}

func (p *r7Pair) Parse(lex *lexer.PeekingLexer) error {
	k := lex.Peek()
	if k.EOF() || k.Value == "=" {
		return participle.NextMatch
	}
	lex.Next()
	if eq := lex.Peek(); eq.Value != "=" {
		return participle.NextMatch // read one token ahead, then declined
	}
	lex.Next()
	v := lex.Peek()
	if v.EOF() {
		return participle.NextMatch // read two tokens ahead, then declined
	}
	lex.Next()
	p.K, p.V = k.Value, v.Value
	return nil
}

type r7Item struct {
	Pair *r7Pair `  @@`
	Word string  `| @Ident`
}
type r7Items struct {
	Items []*r7Item `@@*`
	Rest  []string  `@( Ident | "=" )*`
}

func TestVerif_C13C01_ParseableAlternative(t *testing.T) {
	res := &xResult{Check: "Parseable alternative", Property: "C13 C01", Exhaustive: true,
		Bound: "one grammar whose first alternative is a Parseable that reads up to two tokens before declining with NextMatch, all inputs of <= 5 tokens over {a, b, =}, lookahead 0, 1, 2, 3, MaxLookahead, unlimited",
		Rule: "(input, lookahead) pairs; non-trivial = the Parseable declines after reading ahead"}
	lex := lexer.MustSimple([]lexer.SimpleRule{{Name: "Ident", Pattern: `[a-z]+`}, {Name: "Punct", Pattern: `=`}, {Name: "whitespace", Pattern: `\s+`}})
	var inputs [][]string
	var rec func(p []string)
	rec = func(p []string) {
		inputs = append(inputs, p)
		if len(p) == 5 {
			return
		}
		for _, a := range []string{"a", "b", "="} {
			rec(append(p[:len(p):len(p)], a))
		}
	}
	rec(nil)
	// the meaning: items are read greedily, a pair where "x = y" stands, else a word; the rest takes what is left
	ref := func(ws []string) string {
		var items []string
		i := 0
		for i < len(ws) {
			if ws[i] != "=" && i+2 < len(ws) && ws[i+1] == "=" {
				items = append(items, "("+ws[i]+"="+ws[i+2]+")")
				i += 3
			} else if ws[i] != "=" {
				items = append(items, ws[i])
				i++
			} else {
				break
			}
		}
		return fmt.Sprint(items, ws[i:])
	}
	for _, k := range []int{0, 1, 2, 3, participle.MaxLookahead, -1} {
		p, err := participle.Build[r7Items](participle.Lexer(lex), participle.UseLookahead(k))
		if err != nil {
			res.violate("Build: %v", err)
			break
		}
		for _, ws := range inputs {
			res.Evaluations++
			in := strings.Join(ws, " ")
			want := ref(ws)
			if strings.Contains(in, "=") {
				res.Distinct++
			}
			func() {
				defer func() {
					if r := recover(); r != nil {
						res.violate("lookahead %d, input %q: panic: %v", k, in, r)
					}
				}()
				v, err := p.ParseString("", in)
				if err != nil {
					res.violate("lookahead %d, input %q: error %v; the grammar accepts every input (%s)", k, in, err, want)
					return
				}
				var items []string
				for _, it := range v.Items {
					if it.Pair != nil {
						items = append(items, "("+it.Pair.K+"="+it.Pair.V+")")
					} else {
						items = append(items, it.Word)
					}
				}
				rest := v.Rest
				if rest == nil {
					rest = []string{}
				}
				if got := fmt.Sprint(items, rest); got != want {
					res.violate("lookahead %d, input %q: parsed as %s, the grammar means %s", k, in, got, want)
				}
			}()
		}
	}
	res.emit(t)
}

// ---- C18: a selection that is empty (however it was computed) means every token ----

func TestVerif_C18_EmptySelection(t *testing.T) {
	res := &xResult{Check: "empty mapper selection", Property: "C18", Exhaustive: true,
		Bound: "Map and Upper with no symbols, with a nil slice and with an empty non-nil slice, text/scanner and stateful lexer, one input",
		Rule: "(lexer, option form) pairs; all non-trivial"}
	st := lexer.MustSimple([]lexer.SimpleRule{{Name: "Ident", Pattern: `[a-z]+`}, {Name: "Int", Pattern: `\d+`}, {Name: "String", Pattern: `"[^"]*"`}, {Name: "Punct", Pattern: `[(),]`}, {Name: "whitespace", Pattern: `\s+`}})
	var nilSel []string
	forms := map[string][]string{"no symbols": nil, "nil slice": nilSel, "empty slice": make([]string, 0, 4)}
	for lname, opts := range map[string][]participle.Option{"text/scanner": nil, "stateful": {participle.Lexer(st)}} {
		for fname, sel := range forms {
			res.Evaluations++
			res.Distinct++
			n := 0
			count := func(tk lexer.Token) (lexer.Token, error) {
				if !tk.EOF() {
					n++
				}
				return tk, nil
			}
			p, err := participle.Build[r6Call](append(append([]participle.Option{}, opts...), participle.Map(count, sel...), participle.Upper(sel...))...)
			if err != nil {
				res.violate("%s, %s: Build: %v", lname, fname, err)
				continue
			}
			v, err := p.ParseString("", `f(a, b)`)
			if err != nil {
				res.violate("%s, %s: %v", lname, fname, err)
				continue
			}
			if n != 6 {
				res.violate("%s lexer, Map with %s: the mapper saw %d of the 6 tokens", lname, fname, n)
			}
			if v.Name != "F" || fmt.Sprint(v.Args) != "[A B]" {
				res.violate("%s lexer, Upper with %s: parsed %s %v, want F [A B]", lname, fname, v.Name, v.Args)
			}
		}
	}
	// a symbol listed twice in one option still maps its tokens once
	res.Evaluations++
	calls := 0
	countIdent := func(tk lexer.Token) (lexer.Token, error) { calls++; return tk, nil }
	if p, err := participle.Build[r6Call](participle.Map(countIdent, "Ident", "Ident"), participle.Unquote("String", "String")); err != nil {
		res.violate("symbols listed twice: Build: %v", err)
	} else if v, err := p.ParseString("", `f(a, "\"q\"")`); err != nil || calls != 2 || fmt.Sprint(v.Args) != `[a "q"]` {
		res.violate("symbols listed twice in Map / Unquote: the mapper ran %d times for 2 identifiers, parsed %v %v; want 2 calls and [a \"q\"]", calls, v, err)
	}
	// a mapper registered for the token type EOF is for that type only
	res.Evaluations++
	if p, err := participle.Build[r6Call](participle.Upper("EOF")); err != nil {
		res.violate("Upper(\"EOF\"): Build: %v", err)
	} else if v, err := p.ParseString("", `f(a, b)`); err != nil || v.Name != "f" || fmt.Sprint(v.Args) != "[a b]" {
		res.violate("Upper(\"EOF\") changed ordinary tokens: parsed %v %v", v, err)
	}
	res.emit(t)
}

// ---- C19: Union and ParseTypeWith together (a custom production referenced from a union member) ----

type r7Val interface{ r7Val() }
type r7Custom interface{ r7Custom() }
type r7CustomV struct{ S string }

func (r7CustomV) r7Custom() {}

type r7Wrap struct {
	C r7Custom `"<" @@ ">"`
}
type r7Plain2 struct {
	W string `@Ident`
}
type r7Doc struct {
	Vals []r7Val `@@*`
}

func (r7Wrap) r7Val()   {}
func (r7Plain2) r7Val() {}

func r7ParseCustom(lex *lexer.PeekingLexer) (r7Custom, error) {
	t := lex.Peek()
	if t.EOF() || t.Value == ">" {
		return nil, participle.NextMatch
	}
	lex.Next()
	return r7CustomV{S: t.Value}, nil
}

func TestVerif_C19_UnionWithCustom(t *testing.T) {
	res := &xResult{Check: "Union with ParseTypeWith", Property: "C19", Exhaustive: true,
		Bound: "one grammar whose union member captures a ParseTypeWith production, the two options in both orders, one input",
		Rule: "option orders; all non-trivial"}
	union := participle.Union[r7Val](r7Wrap{}, r7Plain2{})
	custom := participle.ParseTypeWith(r7ParseCustom)
	for name, opts := range map[string][]participle.Option{"Union first": {union, custom}, "ParseTypeWith first": {custom, union}} {
		res.Evaluations++
		res.Distinct++
		p, err := participle.Build[r7Doc](opts...)
		if err != nil {
			res.violate("%s: Build rejects a valid grammar: %v", name, err)
			continue
		}
		v, err := p.ParseString("", "a <b> c")
		if err != nil || len(v.Vals) != 3 {
			res.violate("%s: ParseString: %v %v", name, v, err)
			continue
		}
		if w, ok := v.Vals[1].(r7Wrap); !ok || w.C != (r7CustomV{S: "b"}) {
			res.violate("%s: second value is %#v", name, v.Vals[1])
		}
	}
	res.emit(t)
}
