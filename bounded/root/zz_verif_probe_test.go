package participle_test

// Counterexample probe for the parser proper (see lexer/zz_verif_probe_test.go for the idea): a family of
// small grammars and inputs on which the properties' own statements are checked through the public API.

import (
	"encoding/json"
	"fmt"
	"math"
	"reflect"
	"strings"
	"testing"

	"github.com/alecthomas/participle/v2"
	"github.com/alecthomas/participle/v2/lexer"
)

type pProbe struct {
	Probe    string   `json:"probe"`
	Tried    int      `json:"tried"`
	Failures []string `json:"failures"`
}

func (p *pProbe) fail(format string, args ...interface{}) {
	if len(p.Failures) < 6 {
		p.Failures = append(p.Failures, fmt.Sprintf(format, args...))
	}
}

var probeLexer = lexer.MustSimple([]lexer.SimpleRule{
	{"Comment", `/\*[^*]*\*/`},
	{"Ident", `[a-zA-Z_]\w*`},
	{"Int", `\d+`},
	{"String", `"[^"]*"`},
	{"Punct", `[-+*/=;,(){}\[\]:!<>.]`},
	{"Whitespace", `\s+`},
})

// ---- grammars ----

type pbTerm struct {
	Pos    lexer.Position
	EndPos lexer.Position
	Tokens []lexer.Token
	Num    *int    `  @Int`
	Name   *string `| @Ident`
	Str    *string `| @String`
	Sub    *pbExpr `| "(" @@ ")"`
}
type pbOp struct {
	Pos    lexer.Position
	EndPos lexer.Position
	Tokens []lexer.Token
	Op     string  `@("+" | "-" | "*")`
	Rhs    *pbTerm `@@`
}
type pbExpr struct {
	Pos    lexer.Position
	EndPos lexer.Position
	Tokens []lexer.Token
	Lhs    *pbTerm `@@`
	Ops    []*pbOp `@@*`
}
type pbStmt struct {
	Pos    lexer.Position
	EndPos lexer.Position
	Tokens []lexer.Token
	Let    *pbLet  `  @@`
	Call   *pbCall `| @@`
	Expr   *pbExpr `| @@ ";"`
}
type pbLet struct {
	Name string  `"let" @Ident "="`
	Val  *pbExpr `@@ ";"`
}
type pbCall struct {
	Fn   string    `@Ident "("`
	Args []*pbExpr `( @@ ( "," @@ )* )? ")" ";"`
}
type pbProg struct {
	Pos    lexer.Position
	EndPos lexer.Position
	Tokens []lexer.Token
	Stmts  []*pbStmt `@@*`
}

// abandoned alternatives / optional groups / negation / lookahead with captures inside (C02)
type pbQ struct {
	X string `"(" @Ident ")"`
}
type pbAlt struct {
	A   string   `(  @Ident`
	B   *pbQ     `   @@ "x"`
	C   string   ` | @Ident "(" Ident ")" "y" )`
	Opt string   `( "," @Ident "!" )?`
	Rep []string `( ";" @Ident "=" )*`
	Neg []string `( "<" @~( @Ident ">" ) )*`
	Lk  string   `( "[" (?! @Ident "]" ) @Int "]" )?`
	End string   `@"."?`
}

type pbKw struct {
	Kw   bool   `  @"null":Ident`
	Str  string `| @String`
	Name string `| @Ident`
}

func probeAST(v interface{}) string {
	b, _ := json.Marshal(v)
	return string(b)
}

// stripPos removes positions/tokens so that ASTs of differently spaced inputs can be compared.
func stripPos(v reflect.Value) {
	switch v.Kind() {
	case reflect.Ptr:
		if !v.IsNil() {
			stripPos(v.Elem())
		}
	case reflect.Slice:
		for i := 0; i < v.Len(); i++ {
			stripPos(v.Index(i))
		}
	case reflect.Struct:
		for i := 0; i < v.NumField(); i++ {
			f := v.Field(i)
			switch v.Type().Field(i).Name {
			case "Pos", "EndPos", "Tokens":
				f.Set(reflect.Zero(f.Type()))
			default:
				stripPos(f)
			}
		}
	}
}

func tryParse[G any](pr *pProbe, p *participle.Parser[G], desc, in string) (v *G, err error, ok bool) {
	defer func() {
		if r := recover(); r != nil {
			pr.fail("%s: input %q: panic: %v", desc, in, r)
			ok = false
		}
	}()
	v, err = p.ParseString("file", in)
	return v, err, true
}

// checkNode: C11 for one node given the raw token stream.
func checkNode(pr *pProbe, in string, raw []lexer.Token, elided map[lexer.TokenType]bool, name string, pos, end lexer.Position, toks []lexer.Token, parentToks []lexer.Token) {
	if len(toks) == 0 {
		return
	}
	// contiguous run of the raw stream
	start := -1
	for i := range raw {
		if raw[i].Pos.Offset == toks[0].Pos.Offset && raw[i].Type == toks[0].Type {
			start = i
			break
		}
	}
	if start < 0 || start+len(toks) > len(raw) || !reflect.DeepEqual(raw[start:start+len(toks)], toks) {
		pr.fail("input %q: node %s: Tokens is not a contiguous run of the lexer's tokens: %v", in, name, toks)
		return
	}
	first := -1
	for i := range toks {
		if !elided[toks[i].Type] {
			first = i
			break
		}
	}
	if first >= 0 && pos != toks[first].Pos {
		pr.fail("input %q: node %s: Pos is %v, its first non-elided token is at %v", in, name, pos, toks[first].Pos)
	}
	nextRaw := raw[start+len(toks)]
	if end != nextRaw.Pos {
		pr.fail("input %q: node %s: EndPos is %v, the token right after its last consumed token is at %v", in, name, end, nextRaw.Pos)
	}
	if parentToks != nil {
		if toks[0].Pos.Offset < parentToks[0].Pos.Offset || toks[len(toks)-1].Pos.Offset > parentToks[len(parentToks)-1].Pos.Offset {
			pr.fail("input %q: node %s: token run %v lies outside its parent's", in, name, toks)
		}
	}
}

func TestVerifProbe_Parse(t *testing.T) {
	pr := &pProbe{Probe: "parser scenarios"}
	defer func() {
		b, _ := json.Marshal(pr)
		fmt.Printf("VERIF-PROBE %s\n", b)
	}()
	opts := []participle.Option{participle.Lexer(probeLexer), participle.Elide("Whitespace", "Comment"), participle.Unquote("String")}
	lookaheads := []int{0, 1, 2, 3, 5, 50, math.MaxInt, -1}

	// ---- program grammar: C13 (lookahead monotone), C10 (elided tokens), C11 (positions), C06 (errors) ----
	inputs := []string{"", "a;", "1+2;", "let x=1;", "f();", "f(1,2);", "f(a+b,(c));", "let y = (1+2)*3; g(y); y;", "a", "1+;", "f(1,;", "let = 3;", "f(1 2);", ")", "let x=1; ;",
		`f("x y","tab");`, `"a b"+"c";g("z");`, "f(a,b,c);g(1+2+3,4);", "f(a b);"}
	spaced := func(s string) []string {
		a := strings.NewReplacer(";", " ;\n", "(", "( ", ",", " , ", "=", " = ", "+", " /*c*/ + ").Replace(s)
		return []string{" " + s, s + "  ", "/*lead*/" + a + "/*trail*/ ", a}
	}
	elided := map[lexer.TokenType]bool{probeLexer.Symbols()["Whitespace"]: true, probeLexer.Symbols()["Comment"]: true}
	type outcome struct {
		ast string
		err string
	}
	base := map[string]map[int]outcome{}
	for _, k := range lookaheads {
		p, err := participle.Build[pbProg](append(opts, participle.UseLookahead(k))...)
		if err != nil {
			pr.fail("Build(pbProg, lookahead %d): %v", k, err)
			return
		}
		for _, in := range inputs {
			pr.Tried++
			v, perr, ok := tryParse(pr, p, fmt.Sprintf("program grammar, lookahead %d", k), in)
			if !ok {
				continue
			}
			if base[in] == nil {
				base[in] = map[int]outcome{}
			}
			o := outcome{}
			if perr != nil {
				o.err = perr.Error()
				pe, isPE := perr.(participle.Error)
				if !isPE {
					pr.fail("program grammar: input %q: error %T (%v) is not a participle.Error", in, perr, perr)
				} else {
					pos := pe.Position()
					if pos.Offset < 0 || pos.Offset > len(in) || pos.Filename != "file" {
						pr.fail("program grammar: input %q: error position %v is not a location of the input", in, pos)
					}
					if !strings.HasPrefix(perr.Error(), fmt.Sprintf("file:%d:%d: ", pos.Line, pos.Column)) {
						pr.fail("program grammar: input %q: error text %q does not start with its position file:%d:%d:", in, perr.Error(), pos.Line, pos.Column)
					}
				}
				if v == nil {
					pr.fail("program grammar: input %q: parse error came with a nil AST", in)
				}
			} else {
				// C11 on the tree
				raw, _ := p.Lex("file", strings.NewReader(in))
				checkNode(pr, in, raw, elided, "Prog", v.Pos, v.EndPos, v.Tokens, nil)
				for _, s := range v.Stmts {
					checkNode(pr, in, raw, elided, "Stmt", s.Pos, s.EndPos, s.Tokens, v.Tokens)
					if s.Expr != nil {
						checkNode(pr, in, raw, elided, "Expr", s.Expr.Pos, s.Expr.EndPos, s.Expr.Tokens, s.Tokens)
						checkNode(pr, in, raw, elided, "Term", s.Expr.Lhs.Pos, s.Expr.Lhs.EndPos, s.Expr.Lhs.Tokens, s.Expr.Tokens)
						for _, op := range s.Expr.Ops {
							checkNode(pr, in, raw, elided, "Op", op.Pos, op.EndPos, op.Tokens, s.Expr.Tokens)
						}
					}
				}
				c := *v
				stripPos(reflect.ValueOf(&c))
				o.ast = probeAST(c)
			}
			base[in][k] = o
			// C10: elided tokens anywhere do not change the outcome
			if k == 1 || k == -1 {
				for _, sp := range spaced(in) {
					v2, err2, ok := tryParse(pr, p, fmt.Sprintf("program grammar, lookahead %d", k), sp)
					if !ok {
						continue
					}
					if (err2 == nil) != (perr == nil) {
						pr.fail("program grammar, lookahead %d: %q parses with error %v but %q (same non-elided tokens) with error %v", k, in, perr, sp, err2)
					} else if perr == nil {
						c := *v2
						stripPos(reflect.ValueOf(&c))
						if probeAST(c) != o.ast {
							pr.fail("program grammar, lookahead %d: %q and %q (same non-elided tokens) give different ASTs: %s vs %s", k, in, sp, o.ast, probeAST(c))
						}
					}
				}
			}
		}
	}
	// C13: success with k implies identical success with every larger k
	for _, in := range inputs {
		for i, k := range lookaheads {
			if base[in][k].err != "" {
				continue
			}
			for _, k2 := range lookaheads[i+1:] {
				if base[in][k2].err != "" || base[in][k2].ast != base[in][k].ast {
					pr.fail("program grammar: input %q parses with lookahead %d to %s, but with lookahead %d gives %s %s", in, k, base[in][k].ast, k2, base[in][k2].ast, base[in][k2].err)
				}
			}
		}
	}

	// ---- alternatives grammar: C02 / C01 (abandoned attempts leave no trace; ordered choice) ----
	type want struct {
		in  string
		ast string // expected JSON of the AST ("" = must fail)
	}
	altCases := []want{
		{"a (b) x", `{"A":"a","B":{"X":"b"},"C":"","Opt":"","Rep":null,"Neg":null,"Lk":"","End":""}`},
		{"a (b) y", `{"A":"","B":null,"C":"a","Opt":"","Rep":null,"Neg":null,"Lk":"","End":""}`},
		{"a (b) y , q !", `{"A":"","B":null,"C":"a","Opt":"q","Rep":null,"Neg":null,"Lk":"","End":""}`},
		{"a (b) y ; p = ; q = .", `{"A":"","B":null,"C":"a","Opt":"","Rep":["p","q"],"Neg":null,"Lk":"","End":"."}`},
		{"a (b) y < 5 < ! .", `{"A":"","B":null,"C":"a","Opt":"","Rep":null,"Neg":["5","!"],"Lk":"","End":"."}`},
		{"a (b) y [ 7 ]", `{"A":"","B":null,"C":"a","Opt":"","Rep":null,"Neg":null,"Lk":"7","End":""}`},
		{"a (b) y , q", ``},
		{"a (b) y [ z ]", ``},
		{"a (b) y < z > ", ``},
	}
	for _, k := range []int{1, 2, 5, 50, -1} {
		p, err := participle.Build[pbAlt](append(opts, participle.UseLookahead(k))...)
		if err != nil {
			pr.fail("Build(pbAlt): %v", err)
			break
		}
		for _, c := range altCases {
			pr.Tried++
			v, perr, ok := tryParse(pr, p, fmt.Sprintf("alternatives grammar, lookahead %d", k), c.in)
			if !ok {
				continue
			}
			if c.ast == "" {
				continue // failure cases: only "no panic"; whether they fail depends on lookahead
			}
			if perr != nil {
				if k >= 5 || k < 0 {
					pr.fail("alternatives grammar, lookahead %d: input %q should parse, got %v", k, c.in, perr)
				}
				continue
			}
			if got := probeAST(v); got != c.ast {
				pr.fail("alternatives grammar, lookahead %d: input %q gives %s, the accepted derivation captures exactly %s", k, c.in, got, c.ast)
			}
		}
	}

	// ---- abandoned attempts inside lookahead / negation, committed failures inside repetition (C02, C01, C13) ----
	moreCases(pr, opts)

	// ---- typed / case-insensitive literals (C01, C10) ----
	pk, err := participle.Build[pbKw](append(opts, participle.CaseInsensitive("Ident"))...)
	if err != nil {
		pr.fail("Build(pbKw): %v", err)
		return
	}
	for _, c := range []want{{"null", `{"Kw":true,"Str":"","Name":""}`}, {"NULL", `{"Kw":true,"Str":"","Name":""}`}, {`"null"`, `{"Kw":false,"Str":"null","Name":""}`}, {"nul", `{"Kw":false,"Str":"","Name":"nul"}`}} {
		pr.Tried++
		v, perr, ok := tryParse(pr, pk, "keyword grammar", c.in)
		if ok && (perr != nil || probeAST(v) != c.ast) {
			pr.fail("keyword grammar: input %q gives %s %v, want %s", c.in, probeAST(v), perr, c.ast)
		}
	}
}

type pbLk struct {
	Label string `(?! @Ident ":" )`
	Probe *pbQ   `(?! @@ )`
	Name  string `@Ident`
	Rest  string `@Ident?`
}
type pbNg struct {
	Key  string   `( "<" ~( @Ident "=" ) )?`
	Vals []string `@Ident*`
}
type pbRep struct {
	Items []string `( "a" @"b" "c" )*`
	Tail  string   `@"d"?`
}
type pbInner struct {
	V []string `( @"a" @"b" @"c" | @"a" @"b" @"d" )`
}
type pbOuter struct {
	Opt  *pbInner `@@?`
	Rest []string `@Ident*`
}
type pbKw2 struct {
	Null bool   `  @"null":Ident`
	Str  string `| @String`
}

func moreCases(pr *pProbe, opts []participle.Option) {
	type want struct {
		in, ast string
		minK  int // the expectation holds for every lookahead >= minK (and unlimited)
	}
	run := func(name string, parse func(k int, in string) (string, error, bool), cases []want) {
		for _, k := range []int{1, 2, 3, 5, 50, -1} {
			for _, c := range cases {
				if k >= 0 && k < c.minK {
					continue
				}
				pr.Tried++
				got, err, ok := parse(k, c.in)
				if !ok {
					continue
				}
				if c.ast == "" {
					if err == nil {
						pr.fail("%s, lookahead %d: input %q must be rejected, got %s", name, k, c.in, got)
					}
					continue
				}
				if err != nil || got != c.ast {
					pr.fail("%s, lookahead %d: input %q gives %s %v, the accepted derivation captures exactly %s", name, k, c.in, got, err, c.ast)
				}
			}
		}
	}
	build := func(k int) []participle.Option { return append(append([]participle.Option{}, opts...), participle.UseLookahead(k)) }
	run("lookahead-group grammar", func(k int, in string) (string, error, bool) {
		p, err := participle.Build[pbLk](build(k)...)
		if err != nil {
			pr.fail("Build(pbLk): %v", err)
			return "", nil, false
		}
		v, perr, ok := tryParse(pr, p, "lookahead-group grammar", in)
		return probeAST(v), perr, ok
	}, []want{{"abc", `{"Label":"","Probe":null,"Name":"abc","Rest":""}`, 1}, {"abc x", `{"Label":"","Probe":null,"Name":"abc","Rest":"x"}`, 1}, {"abc :", ``, 1}})
	// nothing captured inside a negated expression is ever visible, whether or not the parse succeeds
	for _, k := range []int{1, 2, 5, -1} {
		p, err := participle.Build[pbNg](build(k)...)
		if err != nil {
			pr.fail("Build(pbNg): %v", err)
			break
		}
		for _, in := range []string{"< abc x", "x y", "< abc = x", "< abc"} {
			pr.Tried++
			v, perr, ok := tryParse(pr, p, "negation grammar", in)
			if ok && perr == nil && v.Key != "" {
				pr.fail("negation grammar, lookahead %d: input %q: Key == %q was captured inside a negated expression", k, in, v.Key)
			}
		}
	}
	run("repetition grammar", func(k int, in string) (string, error, bool) {
		p, err := participle.Build[pbRep](build(k)...)
		if err != nil {
			pr.fail("Build(pbRep): %v", err)
			return "", nil, false
		}
		v, perr, ok := tryParse(pr, p, "repetition grammar", in)
		return probeAST(v), perr, ok
	}, []want{{"a b c a b c d", `{"Items":["b","b"],"Tail":"d"}`, 1}, {"a b c a b d", ``, 1}, {"a b c", `{"Items":["b"],"Tail":""}`, 1}})
	// a failed attempt that consumed more than the lookahead commits the parse: with lookahead 1 the input must be
	// rejected; with lookahead >= 2 the second alternative is found
	for _, k := range []int{0, 1, 2, 5, -1} {
		p, err := participle.Build[pbOuter](build(k)...)
		if err != nil {
			pr.fail("Build(pbOuter): %v", err)
			break
		}
		pr.Tried++
		v, perr, ok := tryParse(pr, p, "commit grammar", "a b d")
		if !ok {
			continue
		}
		if (k == 0 || k == 1) && perr == nil {
			pr.fail("commit grammar, lookahead %d: input \"a b d\" parses to %s although the first alternative failed after consuming 2 > %d tokens (and it is rejected with larger lookahead 1)", k, probeAST(v), k)
		}
		if k > 1 || k < 0 {
			if perr != nil || probeAST(v) != `{"Opt":{"V":["a","b","d"]},"Rest":null}` {
				pr.fail("commit grammar, lookahead %d: input \"a b d\" gives %s %v", k, probeAST(v), perr)
			}
		}
	}
	// typed literal among case-insensitive types: the type constraint still applies
	pk, err := participle.Build[pbKw2](append(append([]participle.Option{}, opts...), participle.CaseInsensitive("Ident", "String"))...)
	if err == nil {
		pr.Tried++
		v, perr, ok := tryParse(pr, pk, "typed literal grammar", `"Null"`)
		if ok && (perr != nil || probeAST(v) != `{"Null":false,"Str":"Null"}`) {
			pr.fail("typed literal grammar: input %q gives %s %v: the literal \"null\":Ident must not match a String token", `"Null"`, probeAST(v), perr)
		}
	}
	buildCases(pr)
	// Unquote at string edges, mappers run before elision, Trace changes nothing, ParseFromLexer leaves the lexer in place
	entryPointCases(pr, opts)
}

type pbStrs struct {
	S []string `@String*`
}
type pbIdents struct {
	I []string `@Ident*`
}
type pbPair struct {
	K string `@Ident "="`
	V string `@Ident`
}

func (p *pbPair) Parse(lex *lexer.PeekingLexer) error {
	k := lex.Peek()
	if k.EOF() {
		return participle.NextMatch
	}
	p.K = lex.Next().Value
	lex.Next()
	p.V = lex.Next().Value
	return nil
}

func entryPointCases(pr *pProbe, opts []participle.Option) {
	ps, err := participle.Build[pbStrs](opts...)
	if err != nil {
		pr.fail("Build(pbStrs): %v", err)
		return
	}
	for _, s := range []string{"a", "", "x y"} {
		pr.Tried++
		v, perr, ok := tryParse(pr, ps, "strings grammar", `"`+s+`"`)
		if ok && (perr != nil || len(v.S) != 1 || v.S[0] != s) {
			pr.fail("strings grammar: Unquote of %q gives %v %v", `"`+s+`"`, v, perr)
		}
	}
	// mappers see tokens before elision: upper-casing comments is visible in Parser.Lex
	seen := 0
	pm, err := participle.Build[pbIdents](participle.Lexer(probeLexer), participle.Elide("Whitespace", "Comment"),
		participle.Map(func(t lexer.Token) (lexer.Token, error) {
			if !t.EOF() {
				seen++
			}
			return t, nil
		}), participle.Upper("Comment"))
	if err == nil {
		pr.Tried++
		toks, lerr := pm.Lex("", strings.NewReader("a /*c*/ b"))
		if lerr != nil || seen != 5 {
			pr.fail("mapper grammar: a Map() without symbols saw %d of the 5 non-EOF tokens of %q (%v)", seen, "a /*c*/ b", lerr)
		}
		for _, tk := range toks {
			if strings.HasPrefix(tk.Value, "/*") && tk.Value != "/*C*/" {
				pr.fail("mapper grammar: Upper(\"Comment\") left the elided comment token as %q", tk.Value)
			}
		}
	}
	mapperOrderCases(pr)
	captureKindCases(func(format string, args ...interface{}) { pr.fail(format, args...) }, func() { pr.Tried++ })
	tagMeaningCases(pr, opts)
	// Trace changes nothing
	long := strings.Repeat("x", 60)
	pi, err := participle.Build[pbIdents](opts...)
	if err == nil {
		pr.Tried++
		a, e1, ok1 := tryParse(pr, pi, "idents grammar", long+" b")
		var sb strings.Builder
		b, e2 := pi.ParseString("file", long+" b", participle.Trace(&sb))
		if ok1 && (probeAST(a) != probeAST(b) || (e1 == nil) != (e2 == nil)) {
			pr.fail("idents grammar: with Trace the result is %s %v, without it %s %v", probeAST(b), e2, probeAST(a), e1)
		}
	}
	// ParseFromLexer with trailing input allowed: the caller's lexer ends at the first token not consumed
	pp, err := participle.Build[pbPair](opts...)
	if err == nil {
		pr.Tried++
		lx, _ := probeLexer.LexString("", "a = b c = d")
		pl, _ := lexer.Upgrade(lx, probeLexer.Symbols()["Whitespace"], probeLexer.Symbols()["Comment"])
		func() {
			defer func() {
				if r := recover(); r != nil {
					pr.fail("ParseFromLexer panicked: %v", r)
				}
			}()
			v, perr := pp.ParseFromLexer(pl, participle.AllowTrailing(true))
			if perr != nil || v.K != "a" || v.V != "b" || pl.Peek().Value != "c" {
				pr.fail("ParseFromLexer(\"a = b c = d\", AllowTrailing): got %+v %v and the caller's lexer is at %q, want {a b} and \"c\"", v, perr, pl.Peek().Value)
			}
		}()
	}
}

// ---- Build (C19): never panics; rejects what the property says it rejects; accepts documented grammars ----

type bdCap struct{ V string }

func (c *bdCap) Capture(v []string) error { c.V = v[0]; return nil }

type (
	bdOK1 struct {
		A string   `@Ident ( "," @Ident )*`
		B []string `( "[" @String "]" | @"x"+ )?`
	}
	bdOK2 struct {
		A *bdOK1  `@@`
		B []*bdOK1 `( ";" @@ )*`
		C bool    `@"!"?`
		D int     `( ":" @Int )?`
		E string  `(?= "q" ) @Ident?`
		F string  `(?! "z" ) ~"w"?`
	}
	bdOK3 struct {
		Many []bdCap  `@Ident*`
		Ptrs []*bdCap `( "," @Ident )*`
		One  bdCap    `( "=" @Ident )?`
	}
	bdOK4 struct {
		A string "@'a' 'bc' @\"d\""
	}
	bdBadStar      struct{ A string "*" }
	bdBadAt        struct{ A string "@" }
	bdBadNeg       struct{ A string "!" }
	bdBadAlt       struct{ A string `"a" | ?` }
	bdBadAtNeg     struct{ A string "@~" }
	bdBadGroup     struct{ A string `( "a"` }
	bdBadLook      struct{ A string `(? "a" )` }
	bdBadLook2     struct{ A string `(?= "a"` }
	bdBadToken     struct{ A string `@Nope` }
	bdBadEmptyAlt  struct{ A string `"a" | | "b"` }
	bdBadQuote     struct{ A string `@'` }
	bdBadQuote2    struct{ A string `"a` }
	bdBadTyped     struct{ A string `"a":Nope` }
	bdBadOptional  struct{ A string `[ "a"` }
	bdBadRepeat    struct{ A string `{ "a"` }
	bdNoGrammar    struct{ A string }
	bdBadStructCap struct {
		A bdNoGrammar `@Ident`
	}
)

func buildOne[G any](pr *pProbe, wantErr bool) {
	name := fmt.Sprintf("%T", *new(G))
	pr.Tried++
	defer func() {
		if r := recover(); r != nil {
			pr.fail("Build[%s] panicked: %v", name, r)
		}
	}()
	_, err := participle.Build[G](participle.Lexer(probeLexer))
	if wantErr && err == nil {
		pr.fail("Build[%s] accepted a grammar the property says is rejected", name)
	}
	if !wantErr && err != nil {
		pr.fail("Build[%s] rejected a grammar that follows the documented tag syntax: %v", name, err)
	}
}

func buildCases(pr *pProbe) {
	buildOne[bdOK1](pr, false)
	buildOne[bdOK2](pr, false)
	buildOne[bdOK3](pr, false)
	buildOne[bdOK4](pr, false)
	buildOne[bdBadStar](pr, true)
	buildOne[bdBadAt](pr, true)
	buildOne[bdBadNeg](pr, true)
	buildOne[bdBadAlt](pr, true)
	buildOne[bdBadAtNeg](pr, true)
	buildOne[bdBadGroup](pr, true)
	buildOne[bdBadLook](pr, true)
	buildOne[bdBadLook2](pr, true)
	buildOne[bdBadToken](pr, true)
	buildOne[bdBadEmptyAlt](pr, true)
	buildOne[bdBadQuote](pr, true)
	buildOne[bdBadQuote2](pr, true)
	buildOne[bdBadTyped](pr, true)
	buildOne[bdBadOptional](pr, true)
	buildOne[bdBadRepeat](pr, true)
	buildOne[bdNoGrammar](pr, true)
	buildOne[bdBadStructCap](pr, true)
}


// ---- mappers (C18): untyped mappers first, then the mappers of the token's own type, each once, in registration order ----

type pbAny struct {
	T []string `( @Ident | @Int | @String )*`
}

func mapperOrderCases(pr *pProbe) {
	tagger := func(tag string) participle.Mapper {
		return func(t lexer.Token) (lexer.Token, error) {
			if !t.EOF() {
				t.Value += tag
			}
			return t, nil
		}
	}
	for nGlobal := 0; nGlobal <= 5; nGlobal++ {
		// registration order interleaves untyped and typed mappers
		opts := []participle.Option{participle.Lexer(probeLexer), participle.Elide("Whitespace", "Comment")}
		wantGlobal := ""
		want := map[string]string{"Ident": "", "Int": "", "String": ""}
		add := func(tag string, symbols ...string) {
			opts = append(opts, participle.Map(tagger(tag), symbols...))
			if len(symbols) == 0 {
				wantGlobal += tag
			}
			for _, sy := range symbols {
				want[sy] += tag
			}
		}
		add("<i1>", "Ident")
		for g := 0; g < nGlobal; g++ {
			add(fmt.Sprintf("<g%d>", g))
			if g == 0 {
				add("<s1>", "String")
			}
			if g == 1 {
				add("<is>", "Ident", "String")
			}
		}
		add("<n1>", "Int")
		add("<i2>", "Ident")
		p, err := participle.Build[pbAny](opts...)
		if err != nil {
			pr.fail("mapper order: Build with %d untyped mappers: %v", nGlobal, err)
			continue
		}
		input := `ab 12 "q" cd "r" 7 ef`
		kinds := []string{"Ident", "Int", "String", "Ident", "String", "Int", "Ident"}
		raw := []string{"ab", "12", `"q"`, "cd", `"r"`, "7", "ef"}
		for round := 0; round < 2; round++ {
			pr.Tried++
			v, perr, ok := tryParse(pr, p, "mapper order grammar", input)
			if !ok {
				continue
			}
			if perr != nil || len(v.T) != len(raw) {
				pr.fail("mapper order: %d untyped mappers, input %q: %v %v", nGlobal, input, v, perr)
				continue
			}
			for i := range raw {
				exp := raw[i] + wantGlobal + want[kinds[i]]
				if v.T[i] != exp {
					pr.fail("mapper order: with %d untyped Map() options and typed mappers on Ident, String and Int, the %s token %q of %q came out as %q; untyped mappers first and then the token type's own, in registration order, give %q (parse %d)",
						nGlobal, kinds[i], raw[i], input, v.T[i], exp, round+1)
					break
				}
			}
		}
	}
}


// ---- the node graph means what the tag says (C01): bracket groups combined with postfix modifiers ----

type (
	pbBraceBang struct {
		A []string `{ @Ident }! ";"`
	}
	pbBraceOpt struct {
		A []string `{ @Ident }? ";"`
	}
	pbBracketStar struct {
		A []string `( [ "-" ] @Ident )* ";"`
	}
	pbParenPlus struct {
		A []string `( @Ident "," )+ ";"`
	}
)

func tagMeaningOne[G any](pr *pProbe, opts []participle.Option, desc string, get func(*G) []string, cases map[string][]string) {
	p, err := participle.Build[G](opts...)
	if err != nil {
		pr.fail("%s: Build: %v", desc, err)
		return
	}
	for in, want := range cases {
		pr.Tried++
		v, perr, ok := tryParse(pr, p, desc, in)
		if !ok {
			continue
		}
		if want == nil {
			if perr == nil {
				pr.fail("%s: input %q is outside the language of the tag but was accepted as %v", desc, in, get(v))
			}
			continue
		}
		if perr != nil {
			pr.fail("%s: input %q is in the language of the tag but was rejected: %v", desc, in, perr)
			continue
		}
		if got := get(v); !(len(got) == 0 && len(want) == 0) && !reflect.DeepEqual(got, want) {
			pr.fail("%s: input %q gives %v, the tag means %v", desc, in, got, want)
		}
	}
}

func tagMeaningCases(pr *pProbe, opts []participle.Option) {
	tagMeaningOne(pr, opts, "grammar { @Ident }! \";\"", func(g *pbBraceBang) []string { return g.A },
		map[string][]string{"a b c ;": {"a", "b", "c"}, "a ;": {"a"}, ";": nil})
	tagMeaningOne(pr, opts, "grammar { @Ident }? \";\"", func(g *pbBraceOpt) []string { return g.A },
		map[string][]string{"a b c ;": {"a", "b", "c"}, ";": {}})
	tagMeaningOne(pr, opts, "grammar ( [ \"-\" ] @Ident )* \";\"", func(g *pbBracketStar) []string { return g.A },
		map[string][]string{"- a b - c ;": {"a", "b", "c"}, ";": {}, "- - a ;": nil})
	tagMeaningOne(pr, opts, "grammar ( @Ident \",\" )+ \";\"", func(g *pbParenPlus) []string { return g.A },
		map[string][]string{"a , b , ;": {"a", "b"}, ";": nil})
}


// ---- what a capture stores, by kind of field (C06: no panic; C17 / C01: the value) ----

type ckCap struct {
	V   string `@Ident`
	Got []string
}

func (c *ckCap) Capture(v []string) error { c.Got = append(c.Got, v...); return nil }

type ckTxt struct {
	V   string `@Ident`
	Got string
}

func (t *ckTxt) UnmarshalText(b []byte) error { t.Got += string(b); return nil }

type (
	ckSubCap struct {
		X ckCap `@@`
	}
	ckSubCapSlice struct {
		X []ckCap `@@*`
	}
	ckSubCapPtr struct {
		X *ckCap `@@?`
		Y string `@Int?`
	}
	ckSubTxt struct {
		X ckTxt `@@`
	}
	ckTokCap struct {
		X ckCap   `@Ident`
		Y []ckCap `@Ident*`
		Z *ckCap  `( "," @Ident )?`
	}
	ckTokTxt struct {
		X ckTxt  `@Ident`
		Y *ckTxt `@Ident?`
	}
)

func ckRun[G any](fail func(string, ...interface{}), tried func(), desc, in string, check func(*G) string) {
	tried()
	defer func() {
		if r := recover(); r != nil {
			fail("%s: input %q: panic: %v", desc, in, r)
		}
	}()
	p, err := participle.Build[G](participle.Lexer(probeLexer), participle.Elide("Whitespace", "Comment"))
	if err != nil {
		fail("%s: Build: %v", desc, err)
		return
	}
	v, err := p.ParseString("", in)
	if err != nil {
		fail("%s: input %q: %v", desc, in, err)
		return
	}
	if msg := check(v); msg != "" {
		fail("%s: input %q: %s", desc, in, msg)
	}
}

func captureKindCases(fail func(string, ...interface{}), tried func()) {
	ckRun(fail, tried, "X ckCap `@@` (sub-production into a struct that also implements Capture)", "a", func(g *ckSubCap) string {
		if g.X.V != "a" || len(g.X.Got) != 0 {
			return fmt.Sprintf("X = %+v, want the parsed sub-production {V:a} and no Capture call", g.X)
		}
		return ""
	})
	ckRun(fail, tried, "X []ckCap `@@*`", "a b", func(g *ckSubCapSlice) string {
		if len(g.X) != 2 || g.X[0].V != "a" || g.X[1].V != "b" {
			return fmt.Sprintf("X = %+v, want [{V:a} {V:b}]", g.X)
		}
		return ""
	})
	ckRun(fail, tried, "X *ckCap `@@?`", "a 1", func(g *ckSubCapPtr) string {
		if g.X == nil || g.X.V != "a" || g.Y != "1" {
			return fmt.Sprintf("X = %+v Y = %q, want {V:a} and 1", g.X, g.Y)
		}
		return ""
	})
	ckRun(fail, tried, "X ckTxt `@@` (sub-production into a struct that also implements TextUnmarshaler)", "a", func(g *ckSubTxt) string {
		if g.X.V != "a" || g.X.Got != "" {
			return fmt.Sprintf("X = %+v, want the parsed sub-production {V:a} and no UnmarshalText call", g.X)
		}
		return ""
	})
	ckRun(fail, tried, "token captures into Capture implementers", "a b c , d", func(g *ckTokCap) string {
		if fmt.Sprint(g.X.Got) != "[a]" || len(g.Y) != 2 || fmt.Sprint(g.Y[0].Got, g.Y[1].Got) != "[b] [c]" || g.Z == nil || fmt.Sprint(g.Z.Got) != "[d]" {
			return fmt.Sprintf("X=%+v Y=%+v Z=%+v, want Capture([a]), [Capture([b]) Capture([c])], Capture([d])", g.X, g.Y, g.Z)
		}
		return ""
	})
	ckRun(fail, tried, "token captures into TextUnmarshaler implementers", "a b", func(g *ckTokTxt) string {
		if g.X.Got != "a" || g.Y == nil || g.Y.Got != "b" {
			return fmt.Sprintf("X=%+v Y=%+v, want UnmarshalText(a), UnmarshalText(b)", g.X, g.Y)
		}
		return ""
	})
}

// TestVerif_C06C17_CaptureKinds: the same scenarios as a (tiny) bounded stand-in of setField's reflection paths.
func TestVerif_C06C17_CaptureKinds(t *testing.T) {
	res := &xResult{Check: "capture kinds", Property: "C06 C17", Exhaustive: true,
		Bound: "6 grammars: @@ and token captures into fields whose type implements Capture or encoding.TextUnmarshaler (value, pointer, slice), one input each",
		Rule: "scenarios; all are non-trivial"}
	captureKindCases(func(format string, args ...interface{}) { res.violate(format, args...) }, func() { res.Evaluations++; res.Distinct++ })
	res.emit(t)
}

// TestVerif_C18_MapperOrder: the mapper-order scenarios as a bounded stand-in of the table Build makes of the Map()
// options (overlapping token-type selections, untyped mappers registered between typed ones).
func TestVerif_C18C15_MapperOrder(t *testing.T) {
	res := &xResult{Check: "mapper order", Property: "C18 C15", Exhaustive: true,
		Bound: "6 option lists (0-5 untyped Map() options interleaved with typed ones on Ident, String, Int and on Ident+String together), one input of 7 tokens parsed twice with each",
		Rule: "(option list, parse) pairs; all are non-trivial"}
	pr := &pProbe{}
	mapperOrderCases(pr)
	res.Evaluations, res.Distinct = pr.Tried, pr.Tried
	for _, f := range pr.Failures {
		res.violate("%s", f)
	}
	res.emit(t)
}

// TestVerif_C01C19_TagMeaning: bracket groups combined with postfix modifiers mean what the tag says.
func TestVerif_C01C19_TagMeaning(t *testing.T) {
	res := &xResult{Check: "tag meaning", Property: "C01 C19", Exhaustive: true,
		Bound: "4 grammars combining { } [ ] ( ) with ! ? * + x 2-3 inputs each",
		Rule: "(grammar, input) pairs; all are non-trivial"}
	pr := &pProbe{}
	tagMeaningCases(pr, []participle.Option{participle.Lexer(probeLexer), participle.Elide("Whitespace", "Comment")})
	res.Evaluations, res.Distinct = pr.Tried, pr.Tried
	for _, f := range pr.Failures {
		res.violate("%s", f)
	}
	res.emit(t)
}
