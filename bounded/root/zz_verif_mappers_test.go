package participle_test

import (
	"fmt"
	"strconv"
	"strings"
	"testing"

	"github.com/alecthomas/participle/v2"
	"github.com/alecthomas/participle/v2/lexer"
)

// Bounded stand-in for the parts of C18 that live behind reflection-free but stub-heavy code: what Unquote and Upper
// do to a token is a function of that token alone (not of what was unquoted before, C09), Unquote agrees with
// strconv.Unquote on every literal of the family, Upper with strings.ToUpper, and nothing but Value changes.

type mpItems struct {
	Items []string `( @String | @RawString | @Char | @Ident )*`
}

func TestVerif_C18_Mappers(t *testing.T) {
	res := &xResult{Check: "Unquote and Upper mappers", Property: "C18", Exhaustive: true,
		Bound: "29 literals (double-, single- and back-quoted; valid and invalid escapes; \\x, \\u, octal; bytes >= 0x80; embedded quotes of the other styles) in every ordered pair on one parser; 9 identifiers incl. non-ASCII lower case for Upper; stateful and text/scanner lexers",
		Rule: "ordered pairs of literals; non-trivial = the first literal is rejected or the second needs decoding"}
	lex := lexer.MustSimple([]lexer.SimpleRule{
		{Name: "String", Pattern: `"(\\.|[^"\\])*"`}, {Name: "Char", Pattern: `'(\\.|[^'\\])*'`}, {Name: "RawString", Pattern: "`[^`]*`"},
		{Name: "Ident", Pattern: `[\pL_][\pL\pN_]*`}, {Name: "whitespace", Pattern: `\s+`}})
	p, err := participle.Build[mpItems](participle.Lexer(lex), participle.Unquote("String", "RawString", "Char"), participle.Upper("Ident"))
	if err != nil {
		res.violate("Build: %v", err)
		res.emit(t)
		return
	}
	lits := []string{`""`, `"a"`, `"a b"`, `"\n"`, `"\t\\"`, `"\""`, `"\x41"`, `"\xff"`, `"é"`, `"\U0001F600"`, `"\101"`, `"é"`, `"'"`, "\"`\"",
		`"\q"`, `"partial\qrest"`, `"\x4"`, `"\u12"`, `"\400"`,
		`'a'`, `'ab'`, `'\''`, `'"'`, `'\n'`, `'\q'`,
		"`raw`", "`a\\nb`", "`\"q\"`", "``"}
	// the oracle for one literal on its own
	oracle := func(l string) (string, bool) {
		switch l[0] {
		case '`':
			return l[1 : len(l)-1], true
		case '"':
			s, err := strconv.Unquote(l)
			return s, err == nil
		default:
			// single-quoted strings: the same escapes, the other quote
			s, err := strconv.Unquote(`"` + strings.ReplaceAll(strings.ReplaceAll(l[1:len(l)-1], `\'`, `'`), `"`, `\"`) + `"`)
			return s, err == nil
		}
	}
	one := func(l string) (string, bool, string) {
		v, err := p.ParseString("", l)
		if err != nil {
			return "", false, err.Error()
		}
		if len(v.Items) != 1 {
			return "", false, fmt.Sprintf("%d items", len(v.Items))
		}
		return v.Items[0], true, ""
	}
	for _, a := range lits {
		for _, b := range lits {
			res.Evaluations++
			_, okA := oracle(a)
			wantB, okB := oracle(b)
			if !okA || wantB != b[1:len(b)-1] {
				res.Distinct++
			}
			func() {
				defer func() {
					if r := recover(); r != nil {
						res.violate("unquoting %s then %s on one parser: panic: %v", a, b, r)
					}
				}()
				one(a)
				got, ok, msg := one(b)
				if ok != okB {
					res.violate("after unquoting %s, the literal %s gives ok=%v (%s); strconv says ok=%v", a, b, ok, msg, okB)
				} else if ok && got != wantB {
					res.violate("after unquoting %s, the literal %s gives %q; on its own it denotes %q", a, b, got, wantB)
				}
			}()
		}
	}
	for _, id := range []string{"abc", "aBc", "école", "привет", "Ωμέγα", "ǆ", "straße", "x1", "_y"} {
		res.Evaluations++
		res.Distinct++
		got, ok, msg := one(id)
		if !ok || got != strings.ToUpper(id) {
			res.violate("Upper(%q) gives %q (%s), strings.ToUpper gives %q", id, got, msg, strings.ToUpper(id))
		}
	}
	// only Value changes: positions and types of the mapped tokens equal those of the plain lexer
	plain, _ := lexer.ConsumeAll(mustLex(lex, "aé \"b\\n\" `c`"))
	mapped, lerr := p.Lex("", strings.NewReader("aé \"b\\n\" `c`"))
	if lerr != nil || len(plain) != len(mapped) {
		res.violate("Parser.Lex over mapped tokens: %v, %d tokens vs %d", lerr, len(mapped), len(plain))
	} else {
		for i := range plain {
			if plain[i].Type != mapped[i].Type || plain[i].Pos != mapped[i].Pos {
				res.violate("mapper changed more than the value: %v became %v", plain[i], mapped[i])
			}
		}
	}
	res.Samples = append(res.Samples, fmt.Sprintf("%d literals, e.g. %s %s", len(lits), lits[7], lits[15]))
	res.emit(t)
}

func mustLex(def lexer.StringDefinition, s string) lexer.Lexer {
	l, err := def.LexString("", s)
	if err != nil {
		panic(err)
	}
	return l
}
