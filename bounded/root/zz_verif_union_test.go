package participle_test

import (
	"errors"
	"fmt"
	"os"
	"strings"
	"testing"

	"github.com/alecthomas/participle/v2"
	"github.com/alecthomas/participle/v2/lexer"
)

// Bounded stand-in for C06 on grammars with Union options, whose values pass through reflection (Convert, Append,
// Set) that no contract here models: every input of a stated family either parses, or fails with a located
// participle.Error and a non-nil partial AST; nothing panics, whichever way the members are registered.

type unExpr interface{ unExpr() }
type unCall struct {
	Name string   `@Ident "("`
	Args []unExpr `( @@ ( "," @@ )* )? ")"`
}
type unNum struct {
	V int `@Int`
}
type unNeg struct {
	X unExpr `"-" @@`
}

func (*unCall) unExpr() {}
func (unNum) unExpr()   {}
func (*unNeg) unExpr()  {}

type unRootSlice struct {
	Es []unExpr `@@*`
}
type unRootOne struct {
	E    unExpr  `@@`
	Rest *unExpr `( ";" @@ )?`
}

func TestVerif_C06_UnionFailure(t *testing.T) {
	res := &xResult{Check: "union failure", Property: "C06", Exhaustive: true,
		Bound: "2 root grammars (union captured into a slice with @@*, into an interface field and a pointer-to-interface field) with pointer and value members, lookahead 1, 2 and unlimited x all token sequences of length <= 5 (thorough: 6) over {f, 1, 300000000000000000000, (, ), comma, -, ;}",
		Rule: "distinct (grammar, lookahead, input) triples; non-trivial = the parse fails after consuming at least one token"}
	lex := lexer.MustSimple([]lexer.SimpleRule{{Name: "Ident", Pattern: `[a-z]+`}, {Name: "Int", Pattern: `\d+`}, {Name: "Punct", Pattern: `[(),;-]`}, {Name: "whitespace", Pattern: `\s+`}})
	alpha := []string{"f", "1", "300000000000000000000", "(", ")", ",", "-", ";"}
	maxLen := 5
	if os.Getenv("VERIF_TIER") == "thorough" {
		maxLen = 6
	}
	var inputs []string
	var rec func(prefix []string)
	rec = func(prefix []string) {
		inputs = append(inputs, strings.Join(prefix, " "))
		if len(prefix) == maxLen {
			return
		}
		for _, a := range alpha {
			rec(append(prefix[:len(prefix):len(prefix)], a))
		}
	}
	rec(nil)
	union := participle.Union[unExpr](&unCall{}, unNum{}, &unNeg{})
	check := func(g string, k int, in string, v interface{}, isNil bool, err error, p interface{}) {
		res.Evaluations++
		if p != nil {
			res.violate("grammar %s, lookahead %d, input %q: panic: %v", g, k, in, p)
			return
		}
		if err == nil {
			return
		}
		var perr participle.Error
		if !errors.As(err, &perr) {
			res.violate("grammar %s, lookahead %d, input %q: error %T is not a participle.Error", g, k, in, err)
			return
		}
		if isNil {
			res.violate("grammar %s, lookahead %d, input %q: parse error %q without a partial AST", g, k, in, err)
		}
		pos := perr.Position()
		if pos.Offset < 0 || pos.Offset > len(in) || pos.Line != 1 || pos.Column != pos.Offset+1 {
			res.violate("grammar %s, lookahead %d, input %q: error %q is located at offset %d line %d column %d", g, k, in, err, pos.Offset, pos.Line, pos.Column)
		}
		if pos.Offset > 0 {
			res.Distinct++
		}
		if res.Evaluations%9973 == 5 && len(res.Samples) < 6 {
			res.Samples = append(res.Samples, fmt.Sprintf("%s k=%d %q => %v", g, k, in, err))
		}
	}
	for _, k := range []int{1, 2, -1} {
		ps, err := participle.Build[unRootSlice](participle.Lexer(lex), union, participle.UseLookahead(k))
		if err != nil {
			res.violate("Build slice root: %v", err)
			break
		}
		po, err := participle.Build[unRootOne](participle.Lexer(lex), union, participle.UseLookahead(k))
		if err != nil {
			res.violate("Build one root: %v", err)
			break
		}
		for _, in := range inputs {
			func() {
				var v *unRootSlice
				var err error
				defer func() { check("slice", k, in, v, v == nil, err, recover()) }()
				v, err = ps.ParseString("", in)
			}()
			func() {
				var v *unRootOne
				var err error
				defer func() { check("one", k, in, v, v == nil, err, recover()) }()
				v, err = po.ParseString("", in)
			}()
		}
	}
	res.emit(t)
}
