package participle_test

import (
	"fmt"
	"reflect"
	"strings"
	"testing"

	"github.com/alecthomas/participle/v2"
	"github.com/alecthomas/participle/v2/ebnf"
	"github.com/alecthomas/participle/v2/lexer"
)

// Bounded stand-ins added after the tenth round of seeded changes.

// ---- C02 / C12: an abandoned attempt that completed a sub-production leaves the token stream as it was ----

type r10Assign struct {
	Toks []lexer.Token `@Ident "=" @Ident`
}
type r10Stmt struct {
	Assign *r10Assign `  @@ ";"`
	Expr   []string   `| @( Ident | "=" )+ "."`
}
type r10Attr struct {
	Pair *r10Assign `"[" @@ "]"`
}
type r10Item struct {
	Attr *r10Attr `( @@ "!" )?`
	Rest []string `@( "[" | "]" | "=" | Ident )*`
}

func TestVerif_C02_TokenStreamAfterAbandonedProduction(t *testing.T) {
	res := &xResult{Check: "token stream after an abandoned production", Property: "C02", Exhaustive: true,
		Bound: "2 grammars whose first alternative / optional group completes a sub-production with a twice-captured []lexer.Token field before it is abandoned; all inputs of <= 5 words over {k, v, =, ., ;} resp. {[, ], a, =, !}; lookahead MaxLookahead and unlimited",
		Rule: "(input, lookahead) pairs; non-trivial = the first attempt consumed a token"}
	ident := func(w string) bool { return w == "k" || w == "v" || w == "a" }
	var words func(alpha []string, n int, f func([]string))
	words = func(alpha []string, n int, f func([]string)) {
		var rec func(cur []string)
		rec = func(cur []string) {
			if len(cur) > 0 {
				f(cur)
			}
			if len(cur) == n {
				return
			}
			for _, a := range alpha {
				rec(append(cur[:len(cur):len(cur)], a))
			}
		}
		rec(nil)
	}
	for _, la := range []int{participle.MaxLookahead, -1} {
		p1, err := participle.Build[r10Stmt](participle.UseLookahead(la))
		if err != nil {
			res.violate("Build: %v", err)
			break
		}
		words([]string{"k", "v", "=", ".", ";"}, 5, func(w []string) {
			res.Evaluations++
			in := strings.Join(w, " ")
			isAssign := len(w) == 4 && ident(w[0]) && w[1] == "=" && ident(w[2]) && w[3] == ";"
			isExpr := len(w) >= 2 && w[len(w)-1] == "."
			for _, x := range w[:len(w)-1] {
				if !ident(x) && x != "=" {
					isExpr = false
				}
			}
			if ident(w[0]) {
				res.Distinct++
			}
			func() {
				defer func() {
					if r := recover(); r != nil {
						res.violate("input %q lookahead %d: panic: %v", in, la, r)
					}
				}()
				got, err := p1.ParseString("", in)
				switch {
				case isAssign:
					if err != nil || got.Assign == nil || got.Expr != nil {
						res.violate("input %q lookahead %d: an assignment, parsed as %+v (%v)", in, la, got, err)
					}
				case isExpr:
					if err != nil || got.Assign != nil || !reflect.DeepEqual(got.Expr, w[:len(w)-1]) {
						res.violate("input %q lookahead %d: an expression %q, parsed as %+v (%v)", in, la, w[:len(w)-1], got, err)
					}
				default:
					if err == nil {
						res.violate("input %q lookahead %d: neither form, accepted as %+v", in, la, got)
					}
				}
			}()
		})
		p2, err := participle.Build[r10Item](participle.UseLookahead(la))
		if err != nil {
			res.violate("Build: %v", err)
			break
		}
		words([]string{"[", "]", "a", "=", "!"}, 5, func(w []string) {
			res.Evaluations++
			in := strings.Join(w, " ")
			isAttr := len(w) >= 6 // never within the bound: "[ a = a ] !" has six words
			rest := true
			for _, x := range w {
				if x == "!" {
					rest = false
				}
			}
			if w[0] == "[" {
				res.Distinct++
			}
			func() {
				defer func() {
					if r := recover(); r != nil {
						res.violate("input %q lookahead %d: panic: %v", in, la, r)
					}
				}()
				got, err := p2.ParseString("", in)
				if isAttr {
					return
				}
				if rest {
					if err != nil || got.Attr != nil || !reflect.DeepEqual(got.Rest, w) {
						res.violate("input %q lookahead %d: plain words, parsed as %+v (%v)", in, la, got, err)
					}
				} else if err == nil {
					res.violate("input %q lookahead %d: holds a ! outside an attribute, accepted as %+v", in, la, got)
				}
			}()
		})
	}
	res.emit(t)
}

// ---- C08: unions that lean on unions declared after them ----

type r10StmtU interface{ r10StmtU() }
type r10PrefixU interface{ r10PrefixU() }
type r10Chain struct {
	Prefix r10PrefixU `( @@`
	Next   *r10Chain  `  @@ )`
	Name   string     `| @Ident`
}
type r10Marks struct {
	Bang string `@"!"?`
}
type r10Sign struct {
	Minus string `@"-"`
}

func (r10Chain) r10StmtU()   {}
func (r10Marks) r10PrefixU() {}
func (r10Sign) r10PrefixU()  {}

type r10PlainRoot struct {
	Name string `@Ident`
}

func TestVerif_C08_UnionsInEitherOrder(t *testing.T) {
	res := &xResult{Check: "unions in either order", Property: "C08", Exhaustive: true,
		Bound: "Chain = (Prefix Chain) | <ident> with the union Prefix = \"!\"? (left-recursive) or Prefix = \"-\" (sound); neither union reached from the root; both orders of the two Union options",
		Rule: "(grammar, option order) pairs; all non-trivial"}
	for _, nullable := range []bool{true, false} {
		for _, order := range []int{0, 1} {
			res.Evaluations++
			res.Distinct++
			var member participle.Option
			if nullable {
				member = participle.Union[r10PrefixU](r10Marks{})
			} else {
				member = participle.Union[r10PrefixU](r10Sign{})
			}
			opts := []participle.Option{participle.Union[r10StmtU](r10Chain{}), member}
			if order == 1 {
				opts[0], opts[1] = opts[1], opts[0]
			}
			func() {
				defer func() {
					if r := recover(); r != nil {
						res.violate("nullable prefix %v, order %d: panic: %v", nullable, order, r)
					}
				}()
				p, err := participle.Build[r10PlainRoot](opts...)
				if nullable {
					if err == nil || !strings.Contains(err.Error(), "left recursion") {
						res.violate("Chain = (Prefix Chain) | <ident> with Prefix = \"!\"? is left-recursive; option order %d: Build returned %v", order, err)
					}
					return
				}
				if err != nil {
					res.violate("Chain = (Prefix Chain) | <ident> with Prefix = \"-\" is sound; option order %d: Build returned %v", order, err)
					return
				}
				chain, err := participle.ParserForProduction[r10Chain](p)
				if err != nil {
					res.violate("ParserForProduction: %v", err)
					return
				}
				got, err := chain.ParseString("", "- - x")
				if err != nil || got.Next == nil || got.Next.Next == nil || got.Next.Next.Name != "x" {
					res.violate("- - x parsed as %+v (%v)", got, err)
				}
			}()
		}
	}
	res.emit(t)
}

// ---- C08 / C10: a production parser elides what the parser it comes from elides; a named elided token is consumed ----

type r10Docs struct {
	Doc  string   `@Comment`
	More *r10Docs `@@?`
}
type r10DocRoot struct {
	Docs *r10Docs `@@?`
	Name string   `@Ident`
}

func TestVerif_C08C10_NamedElidedProductionParser(t *testing.T) {
	res := &xResult{Check: "production parser with elision", Property: "C08 C10", Exhaustive: true,
		Bound: "Docs = <comment> Docs? below a root, Comment and Whitespace elided; 6 inputs through the root parser and through ParserForProduction[Docs]",
		Rule: "(parser, input) pairs; all non-trivial"}
	lex := lexer.MustSimple([]lexer.SimpleRule{{Name: "Comment", Pattern: `/\*[^*]*\*/`}, {Name: "Ident", Pattern: `[a-z]+`}, {Name: "Whitespace", Pattern: `\s+`}})
	p, err := participle.Build[r10DocRoot](participle.Lexer(lex), participle.Elide("Comment", "Whitespace"), participle.UseLookahead(3))
	if err != nil {
		res.violate("Build: %v", err)
		res.emit(t)
		return
	}
	count := func(d *r10Docs) int {
		n := 0
		for ; d != nil && n < 100; d = d.More {
			n++
		}
		return n
	}
	for in, want := range map[string]int{"a": 0, "/*one*/ a": 1, "/*one*/ /*two*/a": 2, " /*one*/\n/*two*/ /*three*/ a ": 3, "/*one*/a /*x*/": 1, "  a  ": 0} {
		res.Evaluations++
		res.Distinct++
		got, err := p.ParseString("", in)
		if err != nil || count(got.Docs) != want || got.Name != "a" {
			res.violate("root parser, input %q: %d comments and %q (%v), want %d and \"a\"", in, count(got.Docs), got.Name, err, want)
		}
	}
	dp, err := participle.ParserForProduction[r10Docs](p)
	if err != nil {
		res.violate("ParserForProduction: %v", err)
		res.emit(t)
		return
	}
	for in, want := range map[string]int{"/*one*/": 1, " /*one*/ /*two*/ ": 2, "/*one*/\n/*two*/ /*three*/": 3} {
		res.Evaluations++
		res.Distinct++
		got, err := dp.ParseString("", in)
		if err != nil || count(got) != want {
			res.violate("production parser, input %q: %d comments (%v), want %d", in, count(got), err, want)
		}
	}
	res.emit(t)
}

// ---- C11: a node's own position fields win over those of a struct it embeds ----

type r10Target struct {
	Pos    lexer.Position
	EndPos lexer.Position
	Tokens []lexer.Token

	Name string `@Ident`
}
type r10AssignPos struct {
	r10Target

	Pos    lexer.Position
	EndPos lexer.Position
	Tokens []lexer.Token

	Value int `"=" @Int`
}
type r10Prog struct {
	Stmts []*r10AssignPos `( @@ ";" )*`
}

func TestVerif_C11_OwnPositionFieldsBeforeEmbedded(t *testing.T) {
	res := &xResult{Check: "own position fields before embedded ones", Property: "C11", Exhaustive: true,
		Bound: "a production that declares Pos / EndPos / Tokens and embeds, before them, a struct with fields of the same names; 3 inputs",
		Rule: "statements; all non-trivial"}
	p, err := participle.Build[r10Prog]()
	if err != nil {
		res.violate("Build: %v", err)
		res.emit(t)
		return
	}
	for _, in := range []string{"x = 1;", "x = 1; yy = 22;", "  a=3 ;\n b = 4;"} {
		toks, err := p.Lex("", strings.NewReader(in))
		if err != nil {
			res.violate("Lex: %v", err)
			continue
		}
		got, err := p.ParseString("", in)
		if err != nil {
			res.violate("input %q: %v", in, err)
			continue
		}
		for i, s := range got.Stmts {
			res.Evaluations++
			res.Distinct++
			first := toks[i*4]
			if s.Pos != first.Pos || len(s.Tokens) != 3 || s.Tokens[0] != first || s.Tokens[2] != toks[i*4+2] || s.EndPos != toks[i*4+3].Pos {
				res.violate("input %q, statement %d: Pos %v EndPos %v Tokens %v, want the run %v", in, i, s.Pos, s.EndPos, s.Tokens, toks[i*4:i*4+3])
			}
		}
	}
	res.emit(t)
}

// ---- C14: operators and token names of tag-built grammars ----

type r10AliasLexer struct{ lexer.Definition }

func (d r10AliasLexer) Symbols() map[string]lexer.TokenType {
	out := map[string]lexer.TokenType{}
	for name, typ := range d.Definition.Symbols() {
		out[name] = typ
	}
	out["Word"] = out["Ident"]
	out["Number"] = out["Int"]
	return out
}

type r10Pair struct {
	Key   string `@Word "="`
	Value int    `@Number`
}
type r10Aliased struct {
	Name  string     `@Ident`
	Count int        `@Int`
	Pairs []*r10Pair `@@*`
}
type r10Nested struct {
	Args []string `"(" [ ( "," @Ident )* ] ")"`
	Opt  string   `( @Ident? )?`
	More []string `[ [ @Int ] ] ( @String+ )*`
}

func r10Count(text string) (names []string, ops map[string]int, err error) {
	tree, err := ebnf.ParseString(text)
	if err != nil {
		return nil, nil, err
	}
	ops = map[string]int{}
	var expr func(e *ebnf.Expression)
	expr = func(e *ebnf.Expression) {
		for _, alt := range e.Alternatives {
			for _, term := range alt.Terms {
				if term.Token != "" {
					names = append(names, term.Token)
				}
				if term.Repetition != "" {
					ops[term.Repetition]++
				}
				if term.Negation {
					ops["~"]++
				}
				if term.Group != nil {
					expr(term.Group.Expr)
				}
			}
		}
	}
	for _, p := range tree.Productions {
		expr(p.Expression)
	}
	return names, ops, nil
}

func TestVerif_C14_TagOperatorsAndTokenNames(t *testing.T) {
	res := &xResult{Check: "operators and token names of tag-built grammars", Property: "C14", Exhaustive: true,
		Bound: "a grammar with optionals directly around optionals and repetitions ([ ( x )* ], ( x? )?, [ [ x ] ], ( x+ )*); a grammar over a lexer definition that has two names for one token type",
		Rule: "grammars; all non-trivial"}
	check := func(name string, text string, wantNames string, wantOps map[string]int) {
		res.Evaluations++
		res.Distinct++
		names, ops, err := r10Count(text)
		if err != nil {
			res.violate("%s: not parseable: %v: %q", name, err, text)
			return
		}
		if got := strings.Join(names, " "); got != wantNames {
			res.violate("%s: the EBNF refers to the tokens %q, the grammar to %q: %q", name, got, wantNames, text)
		}
		for op, n := range wantOps {
			if ops[op] != n {
				res.violate("%s: the EBNF has %d %s operators, the grammar %d: %q", name, ops[op], op, n, text)
			}
		}
		if len(res.Samples) < 4 {
			res.Samples = append(res.Samples, name+" => "+strings.ReplaceAll(text, "\n", " "))
		}
	}
	if p, err := participle.Build[r10Nested](); err != nil {
		res.violate("Build[r10Nested]: %v", err)
	} else {
		check("r10Nested", p.String(), "ident ident int string", map[string]int{"?": 5, "*": 2, "+": 1})
	}
	if p, err := participle.Build[r10Aliased](participle.Lexer(r10AliasLexer{lexer.TextScannerLexer})); err != nil {
		res.violate("Build[r10Aliased]: %v", err)
	} else {
		check("r10Aliased", p.String(), "ident int word number", map[string]int{"*": 1})
		if _, err := p.ParseString("", "x 1 a = 2 b = 3"); err != nil {
			res.violate("r10Aliased: %v", err)
		}
	}
	// an anonymous struct type that is a production implemented by user code (it embeds a Parseable)
	res.Evaluations++
	res.Distinct++
	if p, err := participle.Build[r10AnonParseable](); err != nil {
		res.violate("Build[r10AnonParseable]: %v", err)
	} else if tree, err := ebnf.ParseString(p.String()); err != nil {
		res.violate("r10AnonParseable: not parseable: %v: %q", err, p.String())
	} else if len(tree.Productions) == 0 || tree.Productions[0].Production != "R10AnonParseable" || len(tree.Productions[0].Expression.Alternatives) != 1 || len(tree.Productions[0].Expression.Alternatives[0].Terms) != 2 {
		res.violate("r10AnonParseable: the root is not first or does not refer to its two sub-productions: %q", p.String())
	}
	res.emit(t)
}

type r10Par struct{ X string }

func (p *r10Par) Parse(lex *lexer.PeekingLexer) error {
	tok := lex.Next()
	if tok.EOF() {
		return participle.NextMatch
	}
	p.X = tok.Value
	return nil
}

type r10AnonParseable struct {
	A struct {
		r10Par
	} `@@`
	B *r10Par `@@`
}

// ---- C18: mapper options given before the Lexer option ----

type r10Words struct {
	Items []string `@( Ident | String | Number )*`
}

func TestVerif_C18_MappersBeforeLexerOption(t *testing.T) {
	res := &xResult{Check: "mapper options before the Lexer option", Property: "C18", Exhaustive: true,
		Bound: "Unquote(\"String\"), Upper(\"Ident\") and a custom Map on \"Number\" with a stateful lexer whose token types are numbered unlike the default lexer's; the Lexer option first, last and in between; 3 inputs",
		Rule: "(option order, input) pairs; all non-trivial"}
	lex := lexer.MustSimple([]lexer.SimpleRule{{Name: "Number", Pattern: `\d+`}, {Name: "Punct", Pattern: `[,;]`}, {Name: "String", Pattern: `"[^"]*"`}, {Name: "Ident", Pattern: `[a-z]+`}, {Name: "whitespace", Pattern: `\s+`}})
	neg := participle.Map(func(t lexer.Token) (lexer.Token, error) { t.Value = "-" + t.Value; return t, nil }, "Number")
	orders := map[string][]participle.Option{
		"lexer first":  {participle.Lexer(lex), participle.Unquote("String"), participle.Upper("Ident"), neg},
		"lexer last":   {participle.Unquote("String"), participle.Upper("Ident"), neg, participle.Lexer(lex)},
		"lexer second": {participle.Unquote("String"), participle.Lexer(lex), participle.Upper("Ident"), neg},
	}
	for name, opts := range orders {
		p, err := participle.Build[r10Words](opts...)
		if err != nil {
			res.violate("%s: Build: %v", name, err)
			continue
		}
		for in, want := range map[string]string{`x "a" 42`: "X a -42", `"b c" y`: "b c Y", `7 "" z`: "-7  Z"} {
			res.Evaluations++
			res.Distinct++
			got, err := p.ParseString("", in)
			if err != nil || strings.Join(got.Items, " ") != want {
				res.violate("%s: input %q gives %q (%v), want %q", name, in, got.Items, err, want)
			}
		}
	}
	res.emit(t)
}

var _ = fmt.Sprint

// ---- C17 / C06: a numeric capture whose only token is the EOF token fails with a located error ----

type r10EOFInt struct {
	Name string `@Ident`
	End  int    `@EOF`
}
type r10EOFChoice struct {
	Name  string    `@Ident`
	Value []float64 `@( Float | EOF )`
}

func TestVerif_C17C06_CaptureOfEOF(t *testing.T) {
	res := &xResult{Check: "numeric capture of the EOF token", Property: "C17 C06", Exhaustive: true,
		Bound: "2 grammars capturing the EOF token into an int / a []float64; 3 inputs; with and without a filename",
		Rule: "(grammar, input, filename) triples; all non-trivial"}
	check := func(name, file, in string, err error, line, col int) {
		res.Evaluations++
		res.Distinct++
		if err == nil {
			res.violate("%s: input %q: the empty text of the EOF token was stored as a number", name, in)
			return
		}
		var perr participle.Error
		if e, ok := err.(participle.Error); ok {
			perr = e
		} else {
			res.violate("%s: input %q: the error is a %T, not a participle.Error: %v", name, in, err, err)
			return
		}
		pos := perr.Position()
		prefix := fmt.Sprintf("%d:%d:", line, col)
		if file != "" {
			prefix = file + ":" + prefix
		}
		if pos.Line != line || pos.Column != col || pos.Filename != file || !strings.HasPrefix(err.Error(), prefix) {
			res.violate("%s: input %q: the conversion error is located at %v and reads %q, want it at %s", name, in, pos, err.Error(), prefix)
		}
	}
	p1, err1 := participle.Build[r10EOFInt]()
	p2, err2 := participle.Build[r10EOFChoice]()
	if err1 != nil || err2 != nil {
		res.violate("Build: %v %v", err1, err2)
		res.emit(t)
		return
	}
	for _, file := range []string{"", "demo.txt"} {
		for in, at := range map[string][2]int{"x": {1, 2}, "x  ": {1, 4}, "x\n": {2, 1}} {
			func() {
				defer func() {
					if r := recover(); r != nil {
						res.violate("input %q: panic: %v", in, r)
					}
				}()
				_, err := p1.ParseString(file, in)
				check("End int `@EOF`", file, in, err, at[0], at[1])
				_, err = p2.ParseString(file, in)
				check("Value []float64 `@( Float | EOF )`", file, in, err, at[0], at[1])
			}()
		}
	}
	res.emit(t)
}

// ---- C04 / C15: what ParseBytes and LexBytes return does not depend on what the caller does with the slice afterwards ----

type r10KV struct {
	Pos    lexer.Position
	Tokens []lexer.Token
	Key    string `@Ident "="`
	Value  string `@( Ident | Int | String )`
}

func TestVerif_C04C15_BytesNotRetained(t *testing.T) {
	res := &xResult{Check: "the caller's byte slice is not retained", Property: "C04 C15", Exhaustive: true,
		Bound: "3 parsers (default lexer; stateful lexer without mappers; stateful lexer with Unquote) x 4 inputs: ParseBytes, then the slice is overwritten and reused for the next input; the definitions' LexBytes where offered",
		Rule: "(parser, input) pairs; all non-trivial"}
	st := lexer.MustSimple([]lexer.SimpleRule{{Name: "Ident", Pattern: `[a-z]+`}, {Name: "Int", Pattern: `\d+`}, {Name: "String", Pattern: `"[^"]*"`}, {Name: "Punct", Pattern: `=`}, {Name: "whitespace", Pattern: `\s+`}})
	parsers := map[string][]participle.Option{"default": nil, "stateful": {participle.Lexer(st)}, "stateful+Unquote": {participle.Lexer(st), participle.Unquote("String")}}
	inputs := []string{`alpha = one`, `omega = "end"`, `k = 42`, `zz = yy`}
	for name, opts := range parsers {
		p, err := participle.Build[r10KV](opts...)
		if err != nil {
			res.violate("%s: Build: %v", name, err)
			continue
		}
		buf := make([]byte, 0, 64)
		var kept []*r10KV
		var want []string
		for _, in := range inputs {
			res.Evaluations++
			res.Distinct++
			ref, rerr := p.ParseString("f", in)
			buf = append(buf[:0], in...)
			got, err := p.ParseBytes("f", buf)
			if (err == nil) != (rerr == nil) {
				res.violate("%s: %q: ParseBytes gives %v, ParseString %v", name, in, err, rerr)
				continue
			}
			kept = append(kept, got)
			want = append(want, fmt.Sprintf("%+v", ref))
			for i := range buf {
				buf[i] = '#'
			}
		}
		for i, g := range kept {
			if s := fmt.Sprintf("%+v", g); s != want[i] {
				res.violate("%s: the result of ParseBytes(%q) reads %s after the caller reused its buffer; ParseString gives %s", name, inputs[i], s, want[i])
			}
		}
		if bd, ok := p.Lexer().(lexer.BytesDefinition); ok {
			b := []byte(inputs[0])
			lx, err := bd.LexBytes("f", b)
			if err == nil {
				first, _ := lx.Next()
				for i := range b {
					b[i] = '#'
				}
				if first.Value != "alpha" {
					res.violate("%s: the first token of LexBytes(%q) reads %q after the caller overwrote its slice", name, inputs[0], first.Value)
				}
			}
		}
	}
	res.emit(t)
}
