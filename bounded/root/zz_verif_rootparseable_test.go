package participle_test

import (
	"fmt"
	"os"
	"testing"

	"github.com/alecthomas/participle/v2"
	"github.com/alecthomas/participle/v2/lexer"
)

// Bounded stand-in for the root-Parseable path (rootParseable is under contract; the user's Parse is assumed to obey
// the Parseable interface contract): a root type that parses itself accepts exactly what the equivalent tag grammar
// accepts, with and without AllowTrailing, whatever elided tokens surround the ordinary ones.

type rpWords struct {
	Words []string
}

func (w *rpWords) Parse(lex *lexer.PeekingLexer) error {
	for {
		tok := lex.Peek()
		if tok.EOF() || tok.Value[0] < 'a' || tok.Value[0] > 'z' {
			break
		}
		w.Words = append(w.Words, lex.Next().Value)
	}
	if len(w.Words) == 0 {
		return participle.NextMatch
	}
	return nil
}

type rpTagged struct {
	Words []string `@Ident+`
}

func TestVerif_C10C01_ParseableRoot(t *testing.T) {
	res := &xResult{Check: "Parseable root", Property: "C10 C01", Exhaustive: true,
		Bound: "all inputs of length <= 6 (thorough: 7) over {a, b, 1, space, newline, #c + newline (comment)} with white space and comments elided, with and without AllowTrailing, against the tag grammar @Ident+",
		Rule: "distinct (input, option) pairs; non-trivial = the input has an elided token"}
	lex := lexer.MustSimple([]lexer.SimpleRule{{Name: "Ident", Pattern: `[a-z]+`}, {Name: "Int", Pattern: `\d+`}, {Name: "Comment", Pattern: `#[^\n]*\n?`}, {Name: "Whitespace", Pattern: `\s+`}})
	pr, err := participle.Build[rpWords](participle.Lexer(lex), participle.Elide("Comment", "Whitespace"))
	if err != nil {
		res.violate("Build Parseable root: %v", err)
		res.emit(t)
		return
	}
	pt, err := participle.Build[rpTagged](participle.Lexer(lex), participle.Elide("Comment", "Whitespace"))
	if err != nil {
		res.violate("Build tag grammar: %v", err)
		res.emit(t)
		return
	}
	alpha := []string{"a", "b", "1", " ", "\n", "#c\n"}
	maxLen := 6
	if os.Getenv("VERIF_TIER") == "thorough" {
		maxLen = 7
	}
	var rec func(s string, n int)
	rec = func(s string, n int) {
		for _, trailing := range []bool{false, true} {
			res.Evaluations++
			var opts []participle.ParseOption
			if trailing {
				opts = append(opts, participle.AllowTrailing(true))
			}
			func() {
				defer func() {
					if p := recover(); p != nil {
						res.violate("input %q, AllowTrailing=%v: panic: %v", s, trailing, p)
					}
				}()
				a, aerr := pr.ParseString("", s, opts...)
				b, berr := pt.ParseString("", s, opts...)
				if (aerr == nil) != (berr == nil) {
					res.violate("input %q, AllowTrailing=%v: the Parseable root gives error %v, the tag grammar @Ident+ gives %v", s, trailing, aerr, berr)
					return
				}
				if aerr == nil && fmt.Sprint(a.Words) != fmt.Sprint(b.Words) {
					res.violate("input %q, AllowTrailing=%v: the Parseable root reads %v, the tag grammar %v", s, trailing, a.Words, b.Words)
				}
				if aerr != nil && berr != nil {
					pa, oka := aerr.(participle.Error)
					pb, okb := berr.(participle.Error)
					if !oka || !okb {
						res.violate("input %q: errors %T / %T are not participle.Error", s, aerr, berr)
					} else if pa.Position() != pb.Position() {
						res.violate("input %q, AllowTrailing=%v: the Parseable root fails at %v (%v), the tag grammar at %v (%v)", s, trailing, pa.Position(), aerr, pb.Position(), berr)
					}
				}
			}()
		}
		for _, c := range s {
			if c == ' ' || c == '\n' {
				res.Distinct += 2
				break
			}
		}
		if res.Evaluations%4001 == 1 && len(res.Samples) < 6 {
			res.Samples = append(res.Samples, fmt.Sprintf("%q", s))
		}
		if n == maxLen {
			return
		}
		for _, a := range alpha {
			rec(s+a, n+1)
		}
	}
	rec("", 0)
	res.emit(t)
}
