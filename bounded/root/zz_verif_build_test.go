package participle

import (
	"encoding/json"
	"fmt"
	"os"
	"reflect"
	"strconv"
	"strings"
	"sync/atomic"
	"testing"
	"time"

	"github.com/alecthomas/participle/v2/lexer"
)

// Bounded stand-in for C19: the tag front end (lexStruct / parseType / parse* / validate) on token soup, on
// single-token edits of valid tags and on a zoo of field types, against a reference recogniser of the documented
// tag syntax written from the README's grammar table (not from grammar.go).

// ---- reference recogniser of the documented tag syntax over atoms ----
//
//	disj := seq { "|" seq }            seq := term { term }          term := base [ "?" | "*" | "+" | "!" ]
//	base := "@@" | "@" base | literal [ ":" Ident ] | Ident | ( "!" | "~" ) base
//	      | "[" disj "]" | "{" disj "}" | "(" disj ")" | "(?=" disj ")" | "(?!" disj ")"
//
// refTag returns "" when the atoms form a documented grammar, else the class of the first defect:
// unknown-token, unclosed, operator-on-nothing, empty-alternative, or other.
type refTagParser struct {
	atoms   []string
	pos     int
	symbols map[string]bool
	hasCap  bool // a plain capture occurs
	hasSelf bool // @@ occurs
}

func (p *refTagParser) peek() string {
	if p.pos < len(p.atoms) {
		return p.atoms[p.pos]
	}
	return ""
}

func isLitAtom(a string) bool {
	return a != "" && (a[0] == '"' || a[0] == '\'' || a[0] == '`')
}
func isIdentAtom(a string) bool {
	return a != "" && (a[0] >= 'A' && a[0] <= 'Z' || a[0] >= 'a' && a[0] <= 'z')
}
func isModifierAtom(a string) bool { return a == "?" || a == "*" || a == "+" || a == "!" }
func startsBase(a string) bool {
	switch a {
	case "@@", "@", "!", "~", "[", "{", "(", "(?=", "(?!":
		return true
	}
	return isLitAtom(a) || isIdentAtom(a)
}

func (p *refTagParser) disj() string {
	for {
		if e := p.seq(); e != "" {
			return e
		}
		if p.peek() != "|" {
			return ""
		}
		p.pos++
	}
}

func (p *refTagParser) seq() string {
	n := 0
	for startsBase(p.peek()) {
		if e := p.term(); e != "" {
			return e
		}
		n++
	}
	if n == 0 {
		a := p.peek()
		switch {
		case a == "?" || a == "*" || a == "+":
			return "operator-on-nothing"
		case a == "|" || a == "" || a == ")" || a == "]" || a == "}":
			// nothing between two separators: an empty alternative when a "|" is involved, else an empty group/tag
			if a == "|" || (p.pos > 0 && p.atoms[p.pos-1] == "|") {
				return "empty-alternative"
			}
			return "other"
		}
		return "other"
	}
	return ""
}

func (p *refTagParser) term() string {
	if e := p.base(); e != "" {
		return e
	}
	if isModifierAtom(p.peek()) {
		p.pos++
	}
	return ""
}

func (p *refTagParser) closer(c string) string {
	switch p.peek() {
	case c:
		p.pos++
		return ""
	case "":
		return "unclosed"
	}
	return "other"
}

func (p *refTagParser) base() string {
	a := p.peek()
	switch {
	case a == "@@":
		p.pos++
		p.hasSelf = true
		return ""
	case a == "@":
		p.pos++
		p.hasCap = true
		if !startsBase(p.peek()) || p.peek() == "@@" || p.peek() == "@" {
			if p.peek() == "@@" || p.peek() == "@" {
				return "other" // @ @@ / @ @: not documented, whatever Build does
			}
			return "operator-on-nothing"
		}
		return p.base()
	case a == "!" || a == "~":
		p.pos++
		if !startsBase(p.peek()) {
			return "operator-on-nothing"
		}
		return p.base()
	case isLitAtom(a):
		p.pos++
		if a == `"unterminated` || a == "'" {
			return "other"
		}
		if p.peek() == ":" {
			p.pos++
			id := p.peek()
			if !isIdentAtom(id) {
				return "other"
			}
			p.pos++
			if !p.symbols[id] {
				return "unknown-token"
			}
		}
		return ""
	case isIdentAtom(a):
		p.pos++
		if !p.symbols[a] {
			return "unknown-token"
		}
		return ""
	case a == "[":
		p.pos++
		if e := p.disj(); e != "" {
			return e
		}
		return p.closer("]")
	case a == "{":
		p.pos++
		if e := p.disj(); e != "" {
			return e
		}
		return p.closer("}")
	case a == "(" || a == "(?=" || a == "(?!":
		p.pos++
		if a == "(" && p.peek() == "?" {
			return "other" // "( ?": a malformed lookahead
		}
		if e := p.disj(); e != "" {
			return e
		}
		return p.closer(")")
	}
	return "other"
}

func refTag(atoms []string, symbols map[string]bool) (class string, hasCap, hasSelf bool) {
	p := &refTagParser{atoms: atoms, symbols: symbols}
	e := p.disj()
	if e == "" && p.pos < len(atoms) {
		e = "other" // trailing input
	}
	return e, p.hasCap, p.hasSelf
}

// ---- building the struct type and running the real front end ----

type bSub struct {
	A string `@Ident`
}

// bBuild mirrors what Build does after option handling: parseType on the root type, then validate.
func bBuild(t reflect.Type, def lexer.Definition) (n node, err error, panicked interface{}) {
	defer func() { panicked = recover() }()
	g := newGeneratorContext(def)
	n, err = g.parseType(t)
	if err != nil {
		return
	}
	err = validate(n)
	return
}

var bStructCache = map[string]reflect.Type{}

func bStruct(fieldType reflect.Type, tags ...string) reflect.Type {
	fs := make([]reflect.StructField, len(tags))
	for i, tag := range tags {
		fs[i] = reflect.StructField{Name: string(rune('A' + i)), Type: fieldType, Tag: reflect.StructTag(tag)}
	}
	return reflect.StructOf(fs)
}

var (
	bStringType = reflect.TypeOf("")
	bSubPtrType = reflect.TypeOf(&bSub{})
)

type bZooParseVal struct{ X string }

func (bZooParseVal) Parse(lex *lexer.PeekingLexer) error { return nil }

type bZooParsePtr struct{ X string }

func (*bZooParsePtr) Parse(lex *lexer.PeekingLexer) error { return nil }

type bZooCapture struct{ X string }

func (c *bZooCapture) Capture(v []string) error { return nil }

type bZooText struct{ X string }

func (c *bZooText) UnmarshalText(b []byte) error { return nil }

type bZooRec struct {
	Next *bZooRec `"x" @@?`
	V    string   `@Ident`
}
type bZooLeftRec struct {
	Next *bZooLeftRec `@@?`
	V    string       `@Ident`
}
type bZooAnonLeftRec struct {
	A struct {
		B *bZooAnonLeftRec `@@`
		C string           `@Ident`
	} `@@`
}
type bZooSelfEmbed struct {
	*bZooSelfEmbed
	Name string `@Ident`
}
type bZooMutualA struct {
	*bZooMutualB
	A string `@Ident`
}
type bZooMutualB struct {
	*bZooMutualA
	B string `@Int`
}
type bZooRecSlice []bZooRecSlice
type bZooRecPtr *bZooRecPtr
type bZooMutSliceA []bZooMutSliceB
type bZooMutSliceB []bZooMutSliceA
type bZooMutPtrA *bZooMutPtrB
type bZooMutPtrB []bZooMutPtrA
type bZooUnion interface{ zooU() }
type bZooUnionM struct {
	X string `@Ident`
}

func (bZooUnionM) zooU() {}

type bZooUnionRoot struct {
	V bZooUnion `@@`
}
type bZooEmpty struct{}
type bZooNoTags struct{ A, B string }
type bZooIface interface{ zoo() }

func TestVerif_C19_BuildTotality(t *testing.T) {
	res := &verifResult{Check: "Build totality", Property: "C19", Exhaustive: true,
		Bound: "tag soup: all atom sequences of length <= 3 (thorough: <= 4) over 34 atoms {'@' \"?\" (operators as quoted literals) @ @@ Ident Nope \"a\" 'b' 'cd' `e` '\"' '\\'' \"a\":Ident \"a\":Nope ( ) [ ] { } | ? * + ! ~ (?= (?! : = , 1 \"unterminated '}, each as one field, split over two fields, and with token-free (white space only) fields before, between and after, whole-tag and parser:\"...\" forms, field types string and *struct; every single-atom insertion / deletion / replacement of 14 valid tags; 48 field types (maps, channels, functions, interfaces, arrays, anonymous / recursive / left-recursive / self-embedding structs, self-referential and mutually referential slice and pointer types, Parseable with value and pointer receivers, Capture, TextUnmarshaler, lexer.Token) x 8 tags and as root types; 7 cases of misused options (nil union member, duplicate / empty / non-interface union, unknown token names); 288 raw tags in which a name is directly followed by a colon (at the end of the tag, before a quote, next to tags of other packages)",
		Rule: "distinct (struct type, tag) inputs; non-trivial = the reference recogniser classifies the tag (valid, or one of the property's four rejection classes)"}
	def := lexer.MustSimple([]lexer.SimpleRule{{Name: "Ident", Pattern: `[a-z]+`}, {Name: "Int", Pattern: `\d+`}, {Name: "Punct", Pattern: `[^\sa-z\d]`}, {Name: "Whitespace", Pattern: `\s+`}})
	symbols := map[string]bool{"Ident": true, "Int": true, "Punct": true, "Whitespace": true, "EOF": true}
	atoms := []string{"@", "@@", "Ident", "Nope", `"a"`, `'b'`, `'cd'`, "`e`", `'"'`, `'\''`, `"a":Ident`, `"a":Nope`, "(", ")", "[", "]", "{", "}", "|", "?", "*", "+", "!", "~", "(?=", "(?!", ":", "=", ",", "1", `"unterminated`, "'", `'@'`, `"?"`}
	// atoms that are several tag tokens are split for the recogniser
	expand := func(seq []string) []string {
		var out []string
		for _, a := range seq {
			if strings.HasPrefix(a, `"a":`) {
				out = append(out, `"a"`, ":", a[4:])
			} else {
				out = append(out, a)
			}
		}
		return out
	}

	var current atomic.Value
	current.Store("")
	done := make(chan struct{})
	go func() {
		last, since := "", time.Now()
		for {
			select {
			case <-done:
				return
			case <-time.After(500 * time.Millisecond):
				c := current.Load().(string)
				if c != last {
					last, since = c, time.Now()
				} else if c != "" && time.Since(since) > 20*time.Second {
					// the main goroutine is stuck inside Build: report from here and stop the test binary
					res.Violations = append(res.Violations, fmt.Sprintf("Build did not return within 20s on %s", c))
					b, _ := json.Marshal(res)
					fmt.Printf("VERIF-RESULT %s\n", b)
					os.Exit(1)
				}
			}
		}
	}()

	classes := map[string]int{}
	check := func(desc string, typ reflect.Type, class string, wantValid, sure bool) {
		res.Evaluations++
		current.Store(desc)
		n, err, p := bBuild(typ, def)
		if p != nil {
			res.violate("Build panicked on %s: %v", desc, p)
			return
		}
		if (n == nil) == (err == nil) && !(n != nil && err != nil) {
			res.violate("Build returned neither a grammar nor an error on %s", desc)
			return
		}
		if !sure {
			return
		}
		res.Distinct++
		classes[class]++
		if wantValid && err != nil {
			res.violate("Build rejected a tag that follows the documented syntax: %s: %v", desc, firstLineOf(err))
		}
		if !wantValid && err == nil {
			res.violate("Build accepted a tag with defect %q: %s", class, desc)
		}
	}
	// oracle wrapper for one atom sequence in its different presentations
	trySeq := func(seq []string, forms bool) {
		exp := expand(seq)
		class, hasCap, hasSelf := refTag(exp, symbols)
		text := strings.Join(seq, " ")
		for _, ft := range []reflect.Type{bStringType, bSubPtrType} {
			// what the field type adds: @@ needs a struct, a plain capture needs a non-struct
			valid := class == ""
			sure := class != "other"
			c := class
			if valid {
				if ft == bStringType && hasSelf {
					valid, c = false, "capture-type"
				}
				if ft == bSubPtrType && hasCap {
					valid, c = false, "capture-type"
				}
			} else if (ft == bStringType && hasSelf) || (ft == bSubPtrType && hasCap) {
				// both a syntax defect and a type defect: rejected for sure
			}
			if c == "capture-type" {
				// documented ("structs can only be parsed with @@"), but only when the capture is reached before any other defect
				sure = true
			}
			tags := [][]string{{text}}
			if forms {
				tags = append(tags, []string{"parser:" + strconv.Quote(text)})
				for cut := 1; cut < len(seq); cut++ {
					tags = append(tags, []string{strings.Join(seq[:cut], " "), strings.Join(seq[cut:], " ")})
				}
				// a field whose tag holds no token at all (white space only) contributes nothing, wherever it stands
				for cut := 0; cut <= len(seq); cut++ {
					var tg []string
					if cut > 0 {
						tg = append(tg, strings.Join(seq[:cut], " "))
					}
					tg = append(tg, " ")
					if cut < len(seq) {
						tg = append(tg, strings.Join(seq[cut:], " "))
					}
					tags = append(tags, tg)
					if cut > 0 && cut < len(seq) {
						tags = append(tags, []string{strings.Join(seq[:cut], " "), `parser:" "`, " ", strings.Join(seq[cut:], " ")})
					}
				}
			}
			for _, tg := range tags {
				ok := true
				for _, x := range tg {
					if x == "" {
						ok = false
					}
				}
				if !ok {
					continue
				}
				check(fmt.Sprintf("struct{ %s } with tag(s) %q", ft, tg), bStruct(ft, tg...), c, valid, sure)
			}
			if ft == bStringType && !hasSelf && !forms {
				break // the second field type only matters with captures
			}
		}
	}
	maxLen := 3
	if verifThorough() {
		maxLen = 4
	}
	var rec func(seq []string)
	rec = func(seq []string) {
		if len(seq) > 0 {
			trySeq(seq, len(seq) <= 3)
		}
		if len(seq) == maxLen {
			return
		}
		for _, a := range atoms {
			rec(append(seq[:len(seq):len(seq)], a))
		}
	}
	rec(nil)

	// single-atom edits of valid tags
	valid := [][]string{
		{"@", "Ident"}, {"@", "Ident", "(", `","`, "@", "Ident", ")", "*"}, {"(", `"["`, "@", "Ident", `"]"`, "|", "@", `"x"`, "+", ")", "?"},
		{"[", `"a"`, "]", "{", "@", "Ident", "}"}, {"(?=", `"q"`, ")", "@", "Ident", "?"}, {"(?!", `"z"`, ")", "~", `"w"`, "?", "@", "Ident"},
		{"@", "(", "Ident", "|", "Int", ")", "!"}, {`"a":Ident`, "@", "Ident"}, {"@", "(", "Ident", "Ident", ")"}, {"!", `"a"`, "@", "Ident"},
		{"@", "~", "(", `"a"`, "|", `"b"`, ")"}, {"@@"}, {`"x"`, "@@", "*"}, {"(", "@@", "|", `"n"`, ")", "+"},
	}
	for _, v := range valid {
		trySeq(v, true)
		for i := 0; i <= len(v); i++ {
			for _, a := range atoms {
				ins := append(append(append([]string{}, v[:i]...), a), v[i:]...)
				trySeq(ins, true)
				if i < len(v) {
					rep := append(append(append([]string{}, v[:i]...), a), v[i+1:]...)
					trySeq(rep, true)
				}
			}
			if i < len(v) && len(v) > 1 {
				del := append(append([]string{}, v[:i]...), v[i+1:]...)
				trySeq(del, true)
			}
		}
	}

	// raw tags written without blanks between the atoms: a name directly followed by a colon, at the end of the tag
	// and before other entries, with and without tags of other packages around it
	for _, head := range []string{"", `json:"b" `, `parser:"" `, `yaml:"y,omitempty" json:"-" `} {
		for _, name := range []string{"Nope", "Ident", "unknown", "a", "json", "parser", "@Ident", `"x"`} {
			for _, tail := range []string{":", `:"`, `:"x`, `:"x"`, `: "x"`, "::", `:\`, ":Ident", ":Nope:"} {
				raw := head + name + tail
				res.Evaluations++
				res.Distinct++
				n, err, panicked := bBuild(bStruct(bStringType, raw), def)
				if panicked != nil {
					res.violate("raw tag `%s`: Build panics: %v", raw, panicked)
				} else if (n == nil) == (err == nil) {
					res.violate("raw tag `%s`: Build returns node %v and error %v", raw, n, err)
				}
			}
		}
	}

	// field-type zoo
	zoo := []reflect.Type{
		reflect.TypeOf(""), reflect.TypeOf([]string{}), reflect.TypeOf(map[string]string{}), reflect.TypeOf(make(chan int)), reflect.TypeOf(func() {}),
		reflect.TypeOf((*interface{})(nil)).Elem(), reflect.TypeOf((*Parseable)(nil)).Elem(), reflect.TypeOf((*bZooIface)(nil)).Elem(), reflect.TypeOf((*Capture)(nil)).Elem(),
		reflect.TypeOf(&bSub{}), reflect.TypeOf(bSub{}), reflect.TypeOf([]bSub{}), reflect.TypeOf([]*bSub{}), reflect.TypeOf([2]string{}), reflect.TypeOf([2]bSub{}),
		reflect.TypeOf((*string)(nil)), reflect.TypeOf((**string)(nil)), reflect.TypeOf([][]string{}), reflect.TypeOf(true), reflect.TypeOf(int8(0)), reflect.TypeOf(float32(0)),
		reflect.TypeOf(complex64(0)), reflect.TypeOf(uintptr(0)), reflect.TypeOf(lexer.Token{}), reflect.TypeOf([]lexer.Token{}), reflect.TypeOf(&lexer.Token{}),
		reflect.TypeOf(bZooParseVal{}), reflect.TypeOf(&bZooParseVal{}), reflect.TypeOf(bZooParsePtr{}), reflect.TypeOf([]*bZooParsePtr{}), reflect.TypeOf(bZooCapture{}), reflect.TypeOf(&bZooText{}),
		reflect.TypeOf(struct {
			C string `@Ident`
		}{}), reflect.TypeOf(&bZooRec{}), reflect.TypeOf(&bZooLeftRec{}), reflect.TypeOf(&bZooAnonLeftRec{}), reflect.TypeOf(bZooRecSlice{}), reflect.TypeOf(bZooRecPtr(nil)), reflect.TypeOf([]bZooRecSlice{}), reflect.TypeOf(bZooMutSliceA{}), reflect.TypeOf(bZooMutPtrA(nil)), reflect.TypeOf([]bZooMutPtrB{}), reflect.TypeOf(bZooSelfEmbed{}), reflect.TypeOf(&bZooMutualA{}), reflect.TypeOf(bZooEmpty{}), reflect.TypeOf(bZooNoTags{}),
		reflect.TypeOf(struct {
			Self *bZooLeftRec `@@`
			T    struct {
				U []struct {
					V string `@Ident`
				} `@@*`
			} `@@`
		}{}),
	}
	zooTags := []string{"@Ident", "@@", "@Ident*", "@(Ident Ident)", "@@*", `"x"`, `( "x" @@ )*`, `@@ | @Ident`}
	for _, ft := range zoo {
		for _, tg := range zooTags {
			check(fmt.Sprintf("struct{ A %s } with tag %q", ft, tg), bStruct(ft, tg), "zoo", false, false)
		}
		// and as the root type itself
		check(fmt.Sprintf("root type %s", ft), ft, "zoo", false, false)
	}
	// the documented cases of the zoo
	for _, c := range []struct {
		ft    reflect.Type
		tag   string
		valid bool
	}{
		{reflect.TypeOf(bZooParseVal{}), "@@", true}, {reflect.TypeOf(&bZooParseVal{}), "@@", true}, {reflect.TypeOf(bZooParsePtr{}), "@@", true},
		{reflect.TypeOf([]*bZooParsePtr{}), "@@*", true}, {reflect.TypeOf(bZooCapture{}), "@Ident", true}, {reflect.TypeOf(&bZooText{}), "@Ident", true},
		{reflect.TypeOf([]bZooCapture{}), "@Ident*", true}, {reflect.TypeOf([]*bZooCapture{}), "@Ident*", true}, {reflect.TypeOf(&bZooCapture{}), "@Ident", true},
		{reflect.TypeOf([]bZooText{}), "@Ident*", true}, {reflect.TypeOf([]*bZooText{}), "@Ident*", true}, {reflect.TypeOf(bZooText{}), "@Ident", true},
		{reflect.TypeOf(lexer.Token{}), "@Ident", true}, {reflect.TypeOf([]lexer.Token{}), "@Ident*", true}, {reflect.TypeOf(&bZooRec{}), "@@", true},
		{reflect.TypeOf([]string{}), "@Ident*", true}, {reflect.TypeOf(true), `@"x"?`, true}, {reflect.TypeOf(int8(0)), "@Int", true}, {reflect.TypeOf(float32(0)), "@Int", true},
		{reflect.TypeOf(struct {
			C string `@Ident`
		}{}), "@@", true},
		{reflect.TypeOf(bZooEmpty{}), "@@", false}, {reflect.TypeOf(bZooNoTags{}), "@@", false}, {reflect.TypeOf(bSub{}), "@Ident", false},
	} {
		cls := "zoo-documented-invalid"
		if c.valid {
			cls = ""
		}
		check(fmt.Sprintf("struct{ A %s } with tag %q", c.ft, c.tag), bStruct(c.ft, c.tag), cls, c.valid, true)
	}
	// options misused: Build answers with an error (or a parser), never a panic
	for name, build := range map[string]func() error{
		"Union with a nil member":            func() error { _, err := Build[bZooUnionRoot](Union[bZooUnion](bZooUnionM{}, nil)); return err },
		"Union given twice for one type":     func() error { _, err := Build[bZooUnionRoot](Union[bZooUnion](bZooUnionM{}), Union[bZooUnion](bZooUnionM{})); return err },
		"Union without members":              func() error { _, err := Build[bZooUnionRoot](Union[bZooUnion]()); return err },
		"Union over a non-interface type":    func() error { _, err := Build[bSub](Union[bSub](bSub{})); return err },
		"Elide of an unknown token":          func() error { _, err := Build[bSub](Elide("Nope")); return err },
		"Map on an unknown token":            func() error { _, err := Build[bSub](Upper("Nope")); return err },
		"CaseInsensitive on an unknown token": func() error { _, err := Build[bSub](CaseInsensitive("Nope")); return err },
	} {
		res.Evaluations++
		current.Store("option case: " + name)
		func() {
			defer func() {
				if r := recover(); r != nil {
					res.violate("Build panicked on the option case %q: %v", name, r)
				}
			}()
			_ = build()
		}()
	}
	// a field that opts out with an explicitly empty parser tag next to other keys is not part of the grammar
	res.Evaluations++
	res.Distinct++
	if _, err := Build[struct {
		A string `@Ident`
		C string `parser:"" json:"comment"`
		B string `parser:"@Ident" json:"b"`
	}](); err != nil {
		res.violate("Build rejected a grammar with a field tagged `parser:\"\" json:\"comment\"`: %v", firstLineOf(err))
	}
	close(done)
	res.sample(fmt.Sprintf("classes decided by the reference recogniser: %v", classes))
	res.emit(t)
}
