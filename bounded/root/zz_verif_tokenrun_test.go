package participle_test

import (
	"fmt"
	"testing"

	"github.com/alecthomas/participle/v2"
	"github.com/alecthomas/participle/v2/lexer"
)

type trG struct {
	A string        `@Ident`
	B lexer.Token   `@Ident`
	C []lexer.Token `@(Ident Ident)`
	D string        `( "=" @Ident )?`
}
type trNum struct {
	N int `"=" @Ident`
}

// TestVerif_C10C01C17_CaptureTokenRun: a lexer.Token field holds the first token the capture MATCHED, a
// []lexer.Token field the run from its first to its last matched token, and a conversion error is located at the
// first captured token - also when elided tokens precede the capture.
func TestVerif_C10C01C17_CaptureTokenRun(t *testing.T) {
	res := &xResult{Check: "capture token run", Property: "C10 C01 C17", Exhaustive: true,
		Bound: "one grammar with a lexer.Token, a []lexer.Token and a string capture; 4 spacings of the input (no, single, multiple whitespace, comments between tokens)",
		Rule:  "distinct (input spacing) cases; non-trivial = an elided token precedes a capture"}
	p, err := participle.Build[trG](participle.Lexer(probeLexer), participle.Elide("Whitespace", "Comment"))
	if err != nil {
		res.violate("Build: %v", err)
		res.emit(t)
		return
	}
	for i, in := range []string{"a b c d", "a  b   c d", "a/*x*/b/*y*/c/*z*/d", " a b c d "} {
		res.Evaluations++
		if i > 0 {
			res.Distinct++
		}
		v, err := p.ParseString("f", in)
		if err != nil {
			res.violate("input %q: %v", in, err)
			continue
		}
		if v.B.Value != "b" {
			res.violate("input %q: the lexer.Token field holds %q (type %d), the first token the capture matched is \"b\"", in, v.B.Value, v.B.Type)
		}
		if len(v.C) == 0 || v.C[0].Value != "c" || v.C[len(v.C)-1].Value != "d" {
			res.violate("input %q: the []lexer.Token field holds %v, the run from the first to the last matched token is c..d", in, v.C)
		}
		res.Samples = append(res.Samples, fmt.Sprintf("%q -> B=%q C=%v", in, v.B.Value, v.C))
	}
	pn, err := participle.Build[trNum](participle.Lexer(probeLexer), participle.Elide("Whitespace", "Comment"))
	if err == nil {
		for _, in := range []string{"=abc", "= abc", "=/*c*/abc"} {
			res.Evaluations++
			res.Distinct++
			_, perr := pn.ParseString("f", in)
			pe, ok := perr.(participle.Error)
			if perr == nil || !ok {
				res.violate("input %q: expected a located conversion error, got %v", in, perr)
				continue
			}
			want := len(in) - 3
			if pe.Position().Offset != want {
				res.violate("input %q: the conversion error is located at offset %d, the first captured token starts at offset %d", in, pe.Position().Offset, want)
			}
		}
	}
	res.emit(t)
}
