package participle

import (
	"fmt"
	"reflect"
	"strings"
	"testing"

	"github.com/alecthomas/participle/v2/lexer"
)

// Bounded stand-in for the whole-run statements that the per-operator contracts compose into only on paper:
// C01 (the parse result equals the grammar's ordered-choice, bounded-backtracking meaning), C02 (abandoned attempts
// leave no trace), C13 (more lookahead never changes a success) and C10 (only the non-elided tokens matter).
// A reference interpreter written from the property text (not from nodes.go) is run against the real nodes, built
// directly in-package and driven through the real Parser entry point, on every small grammar x input x lookahead.

// ---- the grammar family ----

type mExpr struct {
	op   string // a, b (literals), p0, p1 (production reference, only directly under cap), seq, alt, opt, star, plus, nonempty, neg, lookpos, lookneg, cap, paren
	x, y *mExpr
}

func (e *mExpr) String() string {
	switch e.op {
	case "a", "b":
		return `"` + e.op + `"`
	case "p0", "p1":
		return "@" + strings.ToUpper(e.op)
	case "seq":
		return "(" + e.x.String() + " " + e.y.String() + ")"
	case "alt":
		return "(" + e.x.String() + " | " + e.y.String() + ")"
	case "opt":
		return e.x.String() + "?"
	case "star":
		return e.x.String() + "*"
	case "plus":
		return e.x.String() + "+"
	case "nonempty":
		return e.x.String() + "!"
	case "neg":
		return "~" + e.x.String()
	case "lookpos":
		return "(?= " + e.x.String() + ")"
	case "lookneg":
		return "(?! " + e.x.String() + ")"
	case "cap":
		if e.x.op == "p0" || e.x.op == "p1" {
			return "@" + e.x.String()
		}
		return "@" + e.x.String()
	case "paren":
		return "(" + e.x.String() + ")"
	}
	return "?"
}

var mUnary = []string{"opt", "star", "plus", "nonempty", "neg", "lookpos", "lookneg", "cap", "paren"}

func mEnum(size int, leaves []string, memo map[int][]*mExpr) []*mExpr {
	if v, ok := memo[size]; ok {
		return v
	}
	var out []*mExpr
	if size == 1 {
		for _, l := range leaves {
			out = append(out, &mExpr{op: l})
		}
	} else {
		for _, u := range mUnary {
			for _, x := range mEnum(size-1, leaves, memo) {
				out = append(out, &mExpr{op: u, x: x})
			}
		}
		for ls := 1; ls <= size-2; ls++ {
			for _, x := range mEnum(ls, leaves, memo) {
				for _, y := range mEnum(size-1-ls, leaves, memo) {
					out = append(out, &mExpr{op: "seq", x: x, y: y}, &mExpr{op: "alt", x: x, y: y})
				}
			}
		}
	}
	memo[size] = out
	return out
}

func mIsProd(e *mExpr) bool { return e.op == "p0" || e.op == "p1" }

// mTokOnly: an expression a plain capture may wrap: tokens only (no captures, productions or lookahead groups).
func mTokOnly(e *mExpr) bool {
	if e == nil {
		return true
	}
	switch e.op {
	case "cap", "p0", "p1", "lookpos", "lookneg":
		return false
	}
	return mTokOnly(e.x) && mTokOnly(e.y)
}

// mNullable: can match without consuming a token (productions: given by nul).
func mNullable(e *mExpr, nul [2]bool) bool {
	switch e.op {
	case "a", "b", "neg":
		return false
	case "p0":
		return nul[0]
	case "p1":
		return nul[1]
	case "seq":
		return mNullable(e.x, nul) && mNullable(e.y, nul)
	case "alt":
		return mNullable(e.x, nul) || mNullable(e.y, nul)
	case "opt", "star", "lookpos", "lookneg":
		return true
	case "plus", "cap", "paren", "nonempty":
		return mNullable(e.x, nul)
	}
	return false
}

// mValid: expressible in the tag language and free of the constructs the library itself treats as grammar bugs
// (a choice alternative or a repetition body that can match without consuming).
func mValid(e *mExpr, underCap bool, nul [2]bool) bool {
	switch e.op {
	case "a", "b":
		return true
	case "p0", "p1":
		return false // only directly under a capture
	case "cap":
		if underCap {
			return false
		}
		if mIsProd(e.x) {
			return true
		}
		return mTokOnly(e.x) && mValid(e.x, true, nul)
	case "seq":
		return mValid(e.x, underCap, nul) && mValid(e.y, underCap, nul)
	case "alt":
		return mValid(e.x, underCap, nul) && mValid(e.y, underCap, nul) && !mNullable(e.x, nul) && !mNullable(e.y, nul)
	case "star", "plus":
		return mValid(e.x, underCap, nul) && !mNullable(e.x, nul)
	case "nonempty":
		// x! over something that can only match empty is a grammar that never matches; keep it, it is well defined
		return mValid(e.x, underCap, nul)
	default:
		return mValid(e.x, underCap, nul)
	}
}

func mUses(e *mExpr, op string) bool {
	if e == nil {
		return false
	}
	return e.op == op || mUses(e.x, op) || mUses(e.y, op)
}

// mFirst: productions that can be entered before a token is consumed.
func mFirst(e *mExpr, nul [2]bool, out *[2]bool) {
	switch e.op {
	case "p0":
		out[0] = true
	case "p1":
		out[1] = true
	case "seq":
		mFirst(e.x, nul, out)
		if mNullable(e.x, nul) {
			mFirst(e.y, nul, out)
		}
	case "alt":
		mFirst(e.x, nul, out)
		mFirst(e.y, nul, out)
	case "a", "b":
	default:
		mFirst(e.x, nul, out)
	}
}

func mNullables(bodies []*mExpr) [2]bool {
	var nul [2]bool
	for ch := true; ch; {
		ch = false
		for i, b := range bodies {
			if !nul[i] && mNullable(b, nul) {
				nul[i] = true
				ch = true
			}
		}
	}
	return nul
}

func mLeftRecursive(bodies []*mExpr, nul [2]bool) bool {
	var first [2][2]bool
	for i, b := range bodies {
		mFirst(b, nul, &first[i])
	}
	for ch := true; ch; {
		ch = false
		for i := range bodies {
			for j := range bodies {
				if first[i][j] {
					for k := range bodies {
						if first[j][k] && !first[i][k] {
							first[i][k] = true
							ch = true
						}
					}
				}
			}
		}
	}
	for i := range bodies {
		if first[i][i] {
			return true
		}
	}
	return false
}

// ---- the reference meaning ----

type mInst struct {
	prod int
	V    []string
	Sub  [2][]*mInst
}

func (n *mInst) String() string {
	if n == nil {
		return "nil"
	}
	s := fmt.Sprintf("P%d{V:%v", n.prod, n.V)
	for i := range n.Sub {
		if len(n.Sub[i]) > 0 {
			s += fmt.Sprintf(" P%ds:%v", i, n.Sub[i])
		}
	}
	return s + "}"
}

type mEvent struct {
	vals []string // a plain capture: the captured token texts
	sub  *mInst   // a captured sub-production
}

type mRes struct {
	ok        bool
	pos       int
	vals      []string // token texts matched (what a surrounding capture would store)
	events    []mEvent
	failPos   int  // where the attempt stood when it failed
	committed bool // the failure lies more than `lookahead` tokens past some choice point: it may not be abandoned
}

type mRef struct {
	toks   []string
	bodies []*mExpr
	k      int // lookahead; < 0 unlimited
	steps  int
}

func mFail(pos int) mRes { return mRes{failPos: pos} }

// abandon: at a choice point that started at p0, may the failed attempt r be abandoned?
func (m *mRef) mayAbandon(r mRes, p0 int) bool {
	if r.committed {
		return false
	}
	return m.k < 0 || r.failPos-p0 <= m.k
}

func (m *mRef) eval(e *mExpr, pos int) mRes {
	m.steps++
	switch e.op {
	case "a", "b":
		if pos < len(m.toks) && m.toks[pos] == e.op {
			return mRes{ok: true, pos: pos + 1, vals: []string{e.op}}
		}
		return mFail(pos)
	case "p0", "p1":
		i := int(e.op[1] - '0')
		r := m.eval(m.bodies[i], pos)
		if !r.ok {
			return r
		}
		inst := &mInst{prod: i}
		for _, ev := range r.events {
			if ev.sub != nil {
				inst.Sub[ev.sub.prod] = append(inst.Sub[ev.sub.prod], ev.sub)
			} else {
				inst.V = append(inst.V, ev.vals...)
			}
		}
		return mRes{ok: true, pos: r.pos, events: []mEvent{{sub: inst}}}
	case "cap":
		r := m.eval(e.x, pos)
		if !r.ok {
			return r
		}
		if mIsProd(e.x) {
			return mRes{ok: true, pos: r.pos, events: r.events}
		}
		return mRes{ok: true, pos: r.pos, events: []mEvent{{vals: r.vals}}}
	case "paren":
		return m.eval(e.x, pos)
	case "seq":
		a := m.eval(e.x, pos)
		if !a.ok {
			return a
		}
		b := m.eval(e.y, a.pos)
		if !b.ok {
			return b
		}
		return mRes{ok: true, pos: b.pos, vals: append(append([]string{}, a.vals...), b.vals...), events: append(append([]mEvent{}, a.events...), b.events...)}
	case "alt":
		for _, alt := range []*mExpr{e.x, e.y} {
			r := m.eval(alt, pos)
			if r.ok {
				return r
			}
			if !m.mayAbandon(r, pos) {
				r.committed = true
				return r
			}
		}
		return mFail(pos)
	case "opt":
		r := m.eval(e.x, pos)
		if r.ok {
			return r
		}
		if !m.mayAbandon(r, pos) {
			r.committed = true
			return r
		}
		return mRes{ok: true, pos: pos}
	case "star", "plus":
		acc := mRes{ok: true, pos: pos}
		n := 0
		for {
			r := m.eval(e.x, acc.pos)
			if !r.ok {
				if !m.mayAbandon(r, acc.pos) {
					r.committed = true
					return r
				}
				break
			}
			n++
			acc.vals = append(acc.vals, r.vals...)
			acc.events = append(acc.events, r.events...)
			if r.pos == acc.pos {
				break
			}
			acc.pos = r.pos
		}
		if e.op == "plus" && n == 0 {
			return mFail(pos)
		}
		return acc
	case "nonempty":
		r := m.eval(e.x, pos)
		if !r.ok {
			return r
		}
		if r.pos == pos {
			return mFail(pos) // "! demands a non-empty match"
		}
		return r
	case "neg":
		if pos >= len(m.toks) {
			return mFail(pos)
		}
		if r := m.eval(e.x, pos); r.ok {
			return mFail(pos)
		}
		return mRes{ok: true, pos: pos + 1, vals: []string{m.toks[pos]}}
	case "lookpos", "lookneg":
		r := m.eval(e.x, pos)
		if r.ok == (e.op == "lookpos") {
			return mRes{ok: true, pos: pos}
		}
		return mFail(pos)
	}
	panic("bad op " + e.op)
}

// ---- the real grammar graph ----

type mP0 struct {
	V   []string
	P0s []*mP0
	P1s []*mP1
}
type mP1 struct {
	V   []string
	P0s []*mP0
	P1s []*mP1
}

var mTypes = []reflect.Type{reflect.TypeOf(mP0{}), reflect.TypeOf(mP1{})}

func mField(owner int, name string) structLexerField {
	f, _ := mTypes[owner].FieldByName(name)
	return structLexerField{StructField: f, Index: f.Index}
}

func mBuild(e *mExpr, owner int, prods []*strct) node {
	switch e.op {
	case "a", "b":
		return &literal{s: e.op, t: lexer.EOF}
	case "p0":
		return prods[0]
	case "p1":
		return prods[1]
	case "cap":
		switch e.x.op {
		case "p0":
			return &capture{field: mField(owner, "P0s"), node: prods[0]}
		case "p1":
			return &capture{field: mField(owner, "P1s"), node: prods[1]}
		}
		return &capture{field: mField(owner, "V"), node: mBuild(e.x, owner, prods)}
	case "paren":
		return &group{expr: mBuild(e.x, owner, prods), mode: groupMatchOnce}
	case "seq":
		var items []*mExpr
		var flat func(x *mExpr)
		flat = func(x *mExpr) {
			if x.op == "seq" {
				flat(x.x)
				flat(x.y)
				return
			}
			items = append(items, x)
		}
		flat(e)
		head := &sequence{head: true, node: mBuild(items[0], owner, prods)}
		cur := head
		for _, it := range items[1:] {
			cur.next = &sequence{node: mBuild(it, owner, prods)}
			cur = cur.next
		}
		return head
	case "alt":
		var items []*mExpr
		var flat func(x *mExpr)
		flat = func(x *mExpr) {
			if x.op == "alt" {
				flat(x.x)
				flat(x.y)
				return
			}
			items = append(items, x)
		}
		flat(e)
		d := &disjunction{}
		for _, it := range items {
			d.nodes = append(d.nodes, mBuild(it, owner, prods))
		}
		return d
	case "opt":
		return &group{expr: mBuild(e.x, owner, prods), mode: groupMatchZeroOrOne}
	case "star":
		return &group{expr: mBuild(e.x, owner, prods), mode: groupMatchZeroOrMore}
	case "plus":
		return &group{expr: mBuild(e.x, owner, prods), mode: groupMatchOneOrMore}
	case "nonempty":
		return &group{expr: mBuild(e.x, owner, prods), mode: groupMatchNonEmpty}
	case "neg":
		return &negation{node: mBuild(e.x, owner, prods)}
	case "lookpos":
		return &lookaheadGroup{expr: mBuild(e.x, owner, prods)}
	case "lookneg":
		return &lookaheadGroup{expr: mBuild(e.x, owner, prods), negative: true}
	}
	panic("bad op")
}

var mLexer = lexer.MustSimple([]lexer.SimpleRule{{Name: "Tok", Pattern: `[abc]`}, {Name: "Whitespace", Pattern: ` +`}, {Name: "Comment", Pattern: `#`}})

func mParser(bodies []*mExpr, k int) *Parser[mP0] {
	prods := []*strct{newStrct(mTypes[0]), newStrct(mTypes[1])}
	for i, b := range bodies {
		prods[i].expr = mBuild(b, i, prods)
	}
	return &Parser[mP0]{parserOptions: parserOptions{
		lex: mLexer, rootType: reflect.TypeOf(&mP0{}), useLookahead: k,
		typeNodes:             map[reflect.Type]node{reflect.TypeOf(&mP0{}): prods[0], mTypes[0]: prods[0], mTypes[1]: prods[1]},
		caseInsensitive:       map[string]bool{},
		caseInsensitiveTokens: map[lexer.TokenType]bool{},
		elide:                 []string{"Whitespace", "Comment"},
	}}
}

func mFromReal0(v *mP0) *mInst {
	if v == nil {
		return nil
	}
	n := &mInst{prod: 0, V: v.V}
	for _, s := range v.P0s {
		n.Sub[0] = append(n.Sub[0], mFromReal0(s))
	}
	for _, s := range v.P1s {
		n.Sub[1] = append(n.Sub[1], mFromReal1(s))
	}
	return n
}
func mFromReal1(v *mP1) *mInst {
	if v == nil {
		return nil
	}
	n := &mInst{prod: 1, V: v.V}
	for _, s := range v.P0s {
		n.Sub[0] = append(n.Sub[0], mFromReal0(s))
	}
	for _, s := range v.P1s {
		n.Sub[1] = append(n.Sub[1], mFromReal1(s))
	}
	return n
}

type mOutcome struct {
	ok    bool
	ast   string
	panic string
}

func mRunReal(p *Parser[mP0], in string, opts ...ParseOption) (o mOutcome) {
	defer func() {
		if r := recover(); r != nil {
			o = mOutcome{panic: fmt.Sprint(r)}
		}
	}()
	v, err := p.ParseString("", in, opts...)
	if err != nil {
		return mOutcome{}
	}
	return mOutcome{ok: true, ast: mFromReal0(v).String()}
}

func mDescribe(bodies []*mExpr) string {
	var parts []string
	for i, b := range bodies {
		parts = append(parts, fmt.Sprintf("P%d = %s", i, b))
	}
	return strings.Join(parts, " ; ")
}

func TestVerif_C01C02C13C10_Meaning(t *testing.T) {
	res := &verifResult{Check: "grammar meaning", Property: "C01 C02 C13 C10", Exhaustive: true,
		Bound: "all grammars with one production of <= 4 operator/leaf nodes and all with two productions of <= 3 and <= 2 nodes (thorough: <= 5; <= 3 and <= 3) over {\"a\", \"b\", @@P0, @@P1, sequence, choice, ? * + !, ~, (?= ), (?! ), capture, parentheses} that are expressible in the tag language, not left-recursive and free of empty-matching alternatives / repetition bodies; all inputs of <= 3 (thorough: 4) tokens over {a, b, c}; lookahead 0, 1, 2, 3, MaxLookahead, unlimited; three spacings per input; trailing input allowed and not",
		Rule: "distinct (grammar, input, lookahead) triples; non-trivial = the reference meaning accepts"}
	one, twoA, twoB, maxIn := 4, 3, 2, 3
	if verifThorough() {
		one, twoA, twoB, maxIn = 5, 3, 3, 4
	}
	var inputs [][]string
	var genIn func(cur []string)
	genIn = func(cur []string) {
		inputs = append(inputs, append([]string{}, cur...))
		if len(cur) == maxIn {
			return
		}
		for _, t := range []string{"a", "b", "c"} {
			genIn(append(cur, t))
		}
	}
	genIn(nil)
	ks := []int{0, 1, 2, 3, MaxLookahead, -1}
	spacings := []func([]string) string{
		func(ts []string) string { return strings.Join(ts, " ") },
		func(ts []string) string { return strings.Join(ts, "") },
		func(ts []string) string { return " #" + strings.Join(ts, "  # ") + " # " },
	}
	check := func(bodies []*mExpr) {
		nul := mNullables(bodies)
		for i, b := range bodies {
			_ = i
			if !mValid(b, false, nul) {
				return
			}
		}
		if mLeftRecursive(bodies, nul) {
			return
		}
		simple := true // no negation / lookahead: C13 applies
		for _, b := range bodies {
			if mUses(b, "neg") || mUses(b, "lookpos") || mUses(b, "lookneg") {
				simple = false
			}
		}
		d := mDescribe(bodies)
		before := len(res.Violations)
		defer func() {
			// one violation per grammar is enough
			if len(res.Violations) > before+1 {
				res.Violations = res.Violations[:before+1]
			}
		}()
		parsers := make([]*Parser[mP0], len(ks))
		for i, k := range ks {
			parsers[i] = mParser(bodies, k)
		}
		for _, toks := range inputs {
			var prev []mOutcome
			for ki, k := range ks {
				res.Evaluations++
				ref := &mRef{toks: toks, bodies: bodies, k: k}
				r := ref.eval(&mExpr{op: "p0"}, 0)
				wantOK := r.ok && r.pos == len(toks)
				wantAST := ""
				if r.ok {
					wantAST = r.events[0].sub.String()
				}
				if wantOK {
					res.Distinct++
				}
				got := mRunReal(parsers[ki], spacings[0](toks))
				in := spacings[0](toks)
				switch {
				case got.panic != "":
					res.violate("%s, input %q, lookahead %d: the parser panicked: %s", d, in, k, got.panic)
				case got.ok != wantOK:
					res.violate("%s, input %q, lookahead %d: the parser %s, the grammar's meaning %s", d, in, k, map[bool]string{true: "accepts (AST " + got.ast + ")", false: "rejects"}[got.ok], map[bool]string{true: "accepts with AST " + wantAST, false: "rejects"}[wantOK])
				case got.ok && got.ast != wantAST:
					res.violate("%s, input %q, lookahead %d: the parser returns %s, the accepted derivation captures %s", d, in, k, got.ast, wantAST)
				}
				// trailing input allowed: the prefix the root matched
				gotT := mRunReal(parsers[ki], in, AllowTrailing(true))
				if gotT.panic == "" && (gotT.ok != r.ok || (r.ok && gotT.ast != wantAST)) {
					res.violate("%s, input %q, lookahead %d, trailing input allowed: the parser gives ok=%v %s, the meaning gives ok=%v %s", d, in, k, gotT.ok, gotT.ast, r.ok, wantAST)
				}
				// C10: other spacings of the same tokens
				for si := 1; si < len(spacings); si++ {
					if len(toks) == 0 && si == 1 {
						continue
					}
					alt := mRunReal(parsers[ki], spacings[si](toks))
					if alt != got {
						res.violate("%s, lookahead %d: input %q gives ok=%v %s%s but %q (same non-elided tokens) gives ok=%v %s%s", d, k, in, got.ok, got.ast, got.panic, spacings[si](toks), alt.ok, alt.ast, alt.panic)
					}
				}
				// C13: a success is kept, unchanged, by every larger lookahead
				if simple {
					for pi, p := range prev {
						if p.ok && (!got.ok || got.ast != p.ast) {
							res.violate("%s, input %q: lookahead %d parses to %s, lookahead %d gives ok=%v %s", d, in, ks[pi], p.ast, k, got.ok, got.ast)
						}
					}
				}
				prev = append(prev, got)
			}
		}
		if res.Evaluations%7919 < len(ks) {
			res.sample(d)
		}
	}
	memo1 := map[int][]*mExpr{}
	for s := 1; s <= one; s++ {
		for _, e := range mEnum(s, []string{"a", "b", "p0"}, memo1) {
			check([]*mExpr{e})
		}
	}
	memo2 := map[int][]*mExpr{}
	for sa := 1; sa <= twoA; sa++ {
		for _, a := range mEnum(sa, []string{"a", "b", "p0", "p1"}, memo2) {
			if !mUses(a, "p1") {
				continue
			}
			for sb := 1; sb <= twoB; sb++ {
				for _, b := range mEnum(sb, []string{"a", "b", "p0", "p1"}, memo2) {
					check([]*mExpr{a, b})
				}
			}
		}
	}
	res.emit(t)
}
