package participle

// Bounded stand-ins of the verification framework in /verif (injected with `go test -overlay`).

import (
	"encoding/json"
	"fmt"
	"os"
	"reflect"
	"sort"
	"strings"
	"testing"

	"github.com/alecthomas/participle/v2/lexer"
)

type verifResult struct {
	Check       string   `json:"check"`
	Property    string   `json:"property"`
	Bound       string   `json:"bound"`
	Evaluations int      `json:"evaluations"`
	Distinct    int      `json:"distinct_nontrivial"`
	Rule        string   `json:"rule"`
	Samples     []string `json:"samples"`
	Violations  []string `json:"violations"`
	Exhaustive  bool     `json:"exhaustive"`
}

func (r *verifResult) violate(format string, args ...interface{}) {
	if len(r.Violations) < 50 {
		r.Violations = append(r.Violations, fmt.Sprintf(format, args...))
	}
}
func (r *verifResult) sample(s string) {
	if len(r.Samples) < 6 {
		r.Samples = append(r.Samples, s)
	}
}
func (r *verifResult) emit(t *testing.T) {
	sort.Strings(r.Violations)
	b, _ := json.Marshal(r)
	fmt.Printf("VERIF-RESULT %s\n", b)
	if len(r.Violations) > 0 {
		t.Errorf("%s: %d violations, first: %s", r.Check, len(r.Violations), r.Violations[0])
	}
}
func verifThorough() bool { return os.Getenv("VERIF_TIER") == "thorough" }

// ---- grammar shapes ----

// vExpr is a grammar expression over productions P0..Pn-1 and one token literal.
type vExpr struct {
	op   string // lit, prod, seq, alt, opt, star, plus, nonempty, neg, lookpos, lookneg, cap
	prod int
	a, b *vExpr
}

func (e *vExpr) String() string {
	switch e.op {
	case "lit":
		return `"x"`
	case "lit2":
		return `"a\"  \\b%d\\"`
	case "prod":
		return fmt.Sprintf("P%d", e.prod)
	case "uni":
		return "U"
	case "pbl":
		return "<parseable>"
	case "eof":
		return "EOF"
	case "anylit":
		return `""`
	case "seq":
		return "(" + e.a.String() + " " + e.b.String() + ")"
	case "alt":
		return "(" + e.a.String() + " | " + e.b.String() + ")"
	case "opt":
		return e.a.String() + "?"
	case "star":
		return e.a.String() + "*"
	case "plus":
		return e.a.String() + "+"
	case "nonempty":
		return e.a.String() + "!"
	case "neg":
		return "~" + e.a.String()
	case "lookpos":
		return "(?= " + e.a.String() + ")"
	case "lookneg":
		return "(?! " + e.a.String() + ")"
	case "cap":
		return "@" + e.a.String()
	case "paren":
		return "(" + e.a.String() + ")"
	}
	return "?"
}

// vWithEscapedLiteral adds a second literal, a"\b, whose text needs escaping (used by the C14 stand-in).
var vWithEscapedLiteral = false

// vWithUnion adds a union-typed leaf U (used by the C08 stand-in): a union whose members are all productions but
// the first (the first itself when there is only one).
var vWithUnion = false

func vUnionMembers(nprod int) []int {
	if nprod == 1 {
		return []int{0}
	}
	var m []int
	for i := 1; i < nprod; i++ {
		m = append(m, i)
	}
	return m
}

var vUnary = []string{"opt", "star", "plus", "nonempty", "neg", "lookpos", "lookneg", "cap", "paren"}

// vEnum enumerates all expressions with exactly `size` operator/leaf nodes over nprod productions.
func vEnum(size, nprod int, memo map[int][]*vExpr) []*vExpr {
	if v, ok := memo[size]; ok {
		return v
	}
	var out []*vExpr
	if size == 1 {
		out = append(out, &vExpr{op: "lit"})
		if vWithEscapedLiteral {
			out = append(out, &vExpr{op: "lit2"})
		}
		for i := 0; i < nprod; i++ {
			out = append(out, &vExpr{op: "prod", prod: i})
		}
		if vWithUnion {
			out = append(out, &vExpr{op: "uni"}, &vExpr{op: "eof"}, &vExpr{op: "anylit"}, &vExpr{op: "pbl"})
		}
	} else {
		for _, u := range vUnary {
			for _, a := range vEnum(size-1, nprod, memo) {
				out = append(out, &vExpr{op: u, a: a})
			}
		}
		for ls := 1; ls <= size-2; ls++ {
			for _, a := range vEnum(ls, nprod, memo) {
				for _, b := range vEnum(size-1-ls, nprod, memo) {
					out = append(out, &vExpr{op: "seq", a: a, b: b}, &vExpr{op: "alt", a: a, b: b})
				}
			}
		}
	}
	memo[size] = out
	return out
}

// ---- the specification: nullable / first-position productions / left recursion ----

func specNullable(e *vExpr, bodies []*vExpr, nul []bool) bool {
	switch e.op {
	case "lit", "lit2", "neg", "nonempty", "pbl":
		// (a production that parses itself is taken to consume input, like a token)
		return false
	case "prod":
		return nul[e.prod]
	case "uni":
		for _, m := range vUnionMembers(len(bodies)) {
			if nul[m] {
				return true
			}
		}
		return false
	case "seq":
		return specNullable(e.a, bodies, nul) && specNullable(e.b, bodies, nul)
	case "alt":
		return specNullable(e.a, bodies, nul) || specNullable(e.b, bodies, nul)
	case "opt", "star", "lookpos", "lookneg":
		return true
	case "eof", "anylit":
		// a reference to the EOF token, and an untyped "" literal (which matches any token, EOF included), match at
		// the end of the input without consuming anything
		return true
	case "plus", "cap", "paren":
		return specNullable(e.a, bodies, nul)
	}
	return false
}

func specFirst(e *vExpr, bodies []*vExpr, nul []bool, out map[int]bool) {
	switch e.op {
	case "prod":
		out[e.prod] = true
	case "uni":
		for _, m := range vUnionMembers(len(bodies)) {
			out[m] = true
		}
	case "seq":
		specFirst(e.a, bodies, nul, out)
		if specNullable(e.a, bodies, nul) {
			specFirst(e.b, bodies, nul, out)
		}
	case "alt":
		specFirst(e.a, bodies, nul, out)
		specFirst(e.b, bodies, nul, out)
	case "opt", "star", "plus", "nonempty", "neg", "lookpos", "lookneg", "cap", "paren":
		specFirst(e.a, bodies, nul, out)
	}
}

// specLeftRecursive: some production reachable from P0 can re-enter itself before consuming a token.
func specLeftRecursive(bodies []*vExpr) bool { return specLeftRec(bodies, false) }

func specLeftRec(bodies []*vExpr, allReachable bool) bool {
	n := len(bodies)
	nul := make([]bool, n)
	for changed := true; changed; {
		changed = false
		for i := range bodies {
			if !nul[i] && specNullable(bodies[i], bodies, nul) {
				nul[i] = true
				changed = true
			}
		}
	}
	// direct first sets, then transitive closure
	first := make([]map[int]bool, n)
	for i := range bodies {
		first[i] = map[int]bool{}
		specFirst(bodies[i], bodies, nul, first[i])
	}
	for changed := true; changed; {
		changed = false
		for i := range first {
			for j := range first[i] {
				for k := range first[j] {
					if !first[i][k] {
						first[i][k] = true
						changed = true
					}
				}
			}
		}
	}
	// productions reachable from P0 (anywhere, not only at first position)
	reach := map[int]bool{0: true}
	var mark func(e *vExpr)
	mark = func(e *vExpr) {
		if e == nil {
			return
		}
		if e.op == "prod" && !reach[e.prod] {
			reach[e.prod] = true
			mark(bodies[e.prod])
		}
		if e.op == "uni" {
			for _, m := range vUnionMembers(len(bodies)) {
				if !reach[m] {
					reach[m] = true
					mark(bodies[m])
				}
			}
		}
		mark(e.a)
		mark(e.b)
	}
	mark(bodies[0])
	for i := range bodies {
		if (reach[i] || allReachable) && first[i][i] {
			return true
		}
	}
	return false
}

// specLeftRecursiveAny: some production (all are taken as reachable) can re-enter itself before consuming a token.
func specLeftRecursiveAny(bodies []*vExpr) bool { return specLeftRec(bodies, true) }

// ---- building the real node graph ----

type vPbl struct{ V string }

func (p *vPbl) Parse(lex *lexer.PeekingLexer) error { p.V = lex.Next().Value; return nil }

type vP0 struct{ X string }
type vP1 struct{ Y string }
type vP2 struct{ Z string }

var vTypes = []reflect.Type{reflect.TypeOf(vP0{}), reflect.TypeOf(vP1{}), reflect.TypeOf(vP2{})}

func vBuild(e *vExpr, prods []*strct) node {
	switch e.op {
	case "lit":
		return &literal{s: "x", t: lexer.EOF}
	case "lit2":
		return &literal{s: "a\"  \\b%d\\", t: lexer.EOF}
	case "prod":
		return prods[e.prod]
	case "pbl":
		return &parseable{t: reflect.TypeOf(vPbl{})}
	case "eof":
		return &reference{typ: lexer.EOF, identifier: "EOF"}
	case "anylit":
		return &literal{s: "", t: lexer.EOF}
	case "uni":
		u := &union{unionDef: unionDef{typ: reflect.TypeOf((*fmt.Stringer)(nil)).Elem()}}
		for _, m := range vUnionMembers(len(prods)) {
			u.members = append(u.members, prods[m].typ)
			u.disjunction.nodes = append(u.disjunction.nodes, prods[m])
		}
		return u
	case "seq":
		// flatten right-nested sequences the way parseSequence builds them
		var items []*vExpr
		var flat func(x *vExpr)
		flat = func(x *vExpr) {
			if x.op == "seq" {
				flat(x.a)
				flat(x.b)
				return
			}
			items = append(items, x)
		}
		flat(e)
		head := &sequence{head: true, node: vBuild(items[0], prods)}
		cur := head
		for _, it := range items[1:] {
			cur.next = &sequence{node: vBuild(it, prods)}
			cur = cur.next
		}
		return head
	case "alt":
		var items []*vExpr
		var flat func(x *vExpr)
		flat = func(x *vExpr) {
			if x.op == "alt" {
				flat(x.a)
				flat(x.b)
				return
			}
			items = append(items, x)
		}
		flat(e)
		d := &disjunction{}
		for _, it := range items {
			d.nodes = append(d.nodes, vBuild(it, prods))
		}
		return d
	case "opt":
		return &group{expr: vBuild(e.a, prods), mode: groupMatchZeroOrOne}
	case "star":
		return &group{expr: vBuild(e.a, prods), mode: groupMatchZeroOrMore}
	case "plus":
		return &group{expr: vBuild(e.a, prods), mode: groupMatchOneOrMore}
	case "nonempty":
		return &group{expr: vBuild(e.a, prods), mode: groupMatchNonEmpty}
	case "neg":
		return &negation{node: vBuild(e.a, prods)}
	case "lookpos":
		return &lookaheadGroup{expr: vBuild(e.a, prods)}
	case "lookneg":
		return &lookaheadGroup{expr: vBuild(e.a, prods), negative: true}
	case "cap":
		return &capture{node: vBuild(e.a, prods)}
	case "paren":
		return &group{expr: vBuild(e.a, prods), mode: groupMatchOnce}
	}
	panic("bad op")
}

// vAnonTypes: distinct struct types that all have the empty name.
var vAnonTypes = []reflect.Type{reflect.TypeOf(struct{ A string }{}), reflect.TypeOf(struct{ B string }{}), reflect.TypeOf(struct{ C string }{})}

var vUseAnonTypes = false

func vGrammar(bodies []*vExpr) []*strct {
	prods := make([]*strct, len(bodies))
	for i := range bodies {
		prods[i] = &strct{typ: vTypes[i], usages: 1}
		if vUseAnonTypes {
			prods[i].typ = vAnonTypes[i]
		}
	}
	for i, b := range bodies {
		prods[i].expr = vBuild(b, prods)
	}
	return prods
}

func vDescribe(bodies []*vExpr) string {
	var parts []string
	for i, b := range bodies {
		parts = append(parts, fmt.Sprintf("P%d = %s", i, b))
	}
	return strings.Join(parts, " ; ")
}

func validateNoPanic(n node) (err error, panicked interface{}) {
	defer func() { panicked = recover() }()
	err = validate(n)
	return
}

// TestVerif_C08_LeftRecursion: validate() errs exactly for the grammars in which some reachable production can
// re-enter itself before consuming a token.
func TestVerif_C08C06C19_LeftRecursion(t *testing.T) {
	res := &verifResult{Check: "validate left recursion", Property: "C08 C06 C19", Exhaustive: true,
		Bound: "all grammars with one production whose body has <= 4 (thorough: 5) operator/leaf nodes, and all grammars with two productions with bodies of <= 3 (thorough: P0 <= 3, P1 <= 4) nodes, over {literal, production reference, a union-typed reference (members: the other production), a reference to the EOF token, an untyped \"\" literal, a production that parses itself, sequence, choice, ? * + !, ~, (?= ), (?! ), capture, redundant parentheses}; node graphs built directly in-package; the smaller two-production grammars also entered through a union of all their productions and built over unnamed struct types; plus 7 128 larger shapes (11 prefixes x up to two of 8 wrappers x 4 second productions x 2 contexts) around a reference back to the production",
		Rule: "distinct grammars; non-trivial = the specification says left-recursive, or the grammar has a nullable prefix / second alternative before a production reference"}
	one, twoA, twoB := 4, 3, 3
	if verifThorough() {
		one, twoB = 5, 4
	}
	vWithUnion = true
	defer func() { vWithUnion = false }()
	check := func(bodies []*vExpr) {
		res.Evaluations++
		prods := vGrammar(bodies)
		err, p := validateNoPanic(prods[0])
		want := specLeftRecursive(bodies)
		d := vDescribe(bodies)
		if p != nil {
			res.violate("validate panicked on %s: %v", d, p)
			return
		}
		if want {
			res.Distinct++
		}
		if (err != nil) != want {
			if want {
				res.violate("accepted although left-recursive: %s", d)
			} else {
				res.violate("rejected although not left-recursive: %s (%v)", d, firstLineOf(err))
			}
		}
		if res.Evaluations%397 == 1 {
			res.sample(fmt.Sprintf("%s => leftRecursive=%v", d, want))
		}
	}
	// the same grammars entered through a union of all their productions (the root need not be a struct)
	checkUnionRoot := func(bodies []*vExpr) {
		res.Evaluations++
		prods := vGrammar(bodies)
		u := &union{unionDef: unionDef{typ: reflect.TypeOf((*fmt.Stringer)(nil)).Elem()}}
		for _, p := range prods {
			u.members = append(u.members, p.typ)
			u.disjunction.nodes = append(u.disjunction.nodes, p)
		}
		err, p := validateNoPanic(u)
		// every production is reachable now: left-recursive iff some production can re-enter itself
		want := specLeftRecursiveAny(bodies)
		d := "union root over " + vDescribe(bodies)
		if p != nil {
			res.violate("validate panicked on %s: %v", d, p)
			return
		}
		if (err != nil) != want {
			if want {
				res.violate("accepted although left-recursive: %s", d)
			} else {
				res.violate("rejected although not left-recursive: %s (%v)", d, firstLineOf(err))
			}
		}
	}
	// larger shapes than the enumeration reaches: a prefix that can match nothing, under one or two wrappers, in
	// front of a reference back to the production (and the same with a prefix that cannot)
	{
		lit := &vExpr{op: "lit"}
		opt := func(e *vExpr) *vExpr { return &vExpr{op: "opt", a: e} }
		seq := func(a, b *vExpr) *vExpr { return &vExpr{op: "seq", a: a, b: b} }
		un := func(op string, e *vExpr) *vExpr { return &vExpr{op: op, a: e} }
		p0, p1 := &vExpr{op: "prod", prod: 0}, &vExpr{op: "prod", prod: 1}
		prefixes := []*vExpr{opt(lit), un("paren", seq(opt(lit), opt(lit))), un("cap", opt(lit)), un("star", lit), p1, un("paren", p1), un("nonempty", seq(opt(lit), opt(lit))), lit, un("plus", lit), un("neg", lit), un("lookneg", lit)}
		wrappers := []string{"", "opt", "star", "plus", "paren", "cap", "lookpos", "lookneg", "nonempty"}
		for _, second := range []*vExpr{opt(lit), seq(opt(lit), opt(lit)), lit, un("star", un("paren", opt(lit)))} {
			for _, pre := range prefixes {
				for _, w1 := range wrappers {
					for _, w2 := range wrappers {
						body := seq(pre, seq(p0, lit))
						if w1 != "" {
							body = un(w1, body)
						}
						if w2 != "" {
							body = un(w2, body)
						}
						check([]*vExpr{seq(body, lit), second})
						check([]*vExpr{&vExpr{op: "alt", a: seq(body, lit), b: lit}, second})
					}
				}
			}
		}
	}
	memo1 := map[int][]*vExpr{}
	for s := 1; s <= one; s++ {
		for _, e := range vEnum(s, 1, memo1) {
			check([]*vExpr{e})
		}
	}
	memo2 := map[int][]*vExpr{}
	for sa := 1; sa <= twoA; sa++ {
		for _, a := range vEnum(sa, 2, memo2) {
			for sb := 1; sb <= twoB; sb++ {
				for _, b := range vEnum(sb, 2, memo2) {
					check([]*vExpr{a, b})
					if sa+sb <= 5 {
						checkUnionRoot([]*vExpr{a, b})
						// the same with productions of unnamed struct types (all called "")
						vUseAnonTypes = true
						check([]*vExpr{a, b})
						vUseAnonTypes = false
					}
				}
			}
		}
	}
	res.emit(t)
}

func firstLineOf(err error) string {
	if err == nil {
		return ""
	}
	return strings.SplitN(err.Error(), "\n", 2)[0]
}
