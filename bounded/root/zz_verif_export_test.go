package participle

import "fmt"

// Exported hooks for the external bounded stand-ins (package participle_test), which may import packages
// that themselves import participle (ebnf).

// VerifGrammar describes one enumerated grammar and what Parser.String() prints for it.
type VerifGrammar struct {
	Desc     string
	EBNF     string
	Panic    string
	Prods    int
	Literals int
	ProdRefs int
	Ops      map[string]int // ~ ? * + ! (?= (?!
}

func vCount(e *vExpr, g *VerifGrammar) {
	if e == nil {
		return
	}
	switch e.op {
	case "lit", "lit2":
		g.Literals++
	case "prod":
		g.ProdRefs++
	case "opt":
		g.Ops["?"]++
	case "star":
		g.Ops["*"]++
	case "plus":
		g.Ops["+"]++
	case "nonempty":
		g.Ops["!"]++
	case "neg":
		g.Ops["~"]++
	case "lookpos":
		g.Ops["(?="]++
	case "lookneg":
		g.Ops["(?!"]++
	}
	vCount(e.a, g)
	vCount(e.b, g)
}

// VerifEnumGrammars enumerates the bounded family of grammars (see TestVerif_C08_LeftRecursion) and prints each.
func VerifEnumGrammars(one, twoA, twoB int, visit func(g VerifGrammar)) {
	vWithEscapedLiteral = true
	defer func() { vWithEscapedLiteral = false }()
	emit := func(bodies []*vExpr) {
		g := VerifGrammar{Desc: vDescribe(bodies), Ops: map[string]int{}}
		reach := map[int]bool{0: true}
		var mark func(e *vExpr)
		mark = func(e *vExpr) {
			if e == nil {
				return
			}
			if e.op == "prod" && !reach[e.prod] {
				reach[e.prod] = true
				mark(bodies[e.prod])
			}
			mark(e.a)
			mark(e.b)
		}
		mark(bodies[0])
		for i, b := range bodies {
			if reach[i] {
				g.Prods++
				vCount(b, &g)
			}
		}
		prods := vGrammar(bodies)
		func() {
			defer func() {
				if r := recover(); r != nil {
					g.Panic = fmtSprint(r)
				}
			}()
			g.EBNF = ebnf(prods[0])
		}()
		visit(g)
	}
	memo1 := map[int][]*vExpr{}
	for s := 1; s <= one; s++ {
		for _, e := range vEnum(s, 1, memo1) {
			emit([]*vExpr{e})
		}
	}
	memo2 := map[int][]*vExpr{}
	for sa := 1; sa <= twoA; sa++ {
		for _, a := range vEnum(sa, 2, memo2) {
			for sb := 1; sb <= twoB; sb++ {
				for _, b := range vEnum(sb, 2, memo2) {
					emit([]*vExpr{a, b})
				}
			}
		}
	}
}

func fmtSprint(v interface{}) string { return fmt.Sprint(v) }
