package participle

import (
	"fmt"
	"reflect"
	"strings"
	"testing"
)

// Bounded stand-in for collectFieldIndexes (struct.go), which the VC generator does not reach (reflection over
// struct types, append on shared backing arrays): the index paths of the grammar fields of a struct with embedded
// structs, against an independent walk, for every shape of a stated family; and one hand-written four-level grammar
// built and run end to end.

type embShape struct {
	before, after int       // tagged fields before / after the embedded struct
	child         *embShape // embedded struct, or nil
	untagged      bool      // an exported field without a tag in first position
}

func embEnum(depth int) []*embShape {
	var out []*embShape
	var children []*embShape
	if depth > 0 {
		children = embEnum(depth - 1)
	}
	for b := 0; b <= 2; b++ {
		for a := 0; a <= 2; a++ {
			for _, u := range []bool{false, true} {
				if depth == 0 || u {
					out = append(out, &embShape{before: b, after: a, untagged: u})
				}
				if !u {
					for _, c := range children {
						out = append(out, &embShape{before: b, after: a, child: c})
					}
				}
			}
		}
	}
	return out
}

// embType builds the struct type of a shape; names are unique per path so that every field is identifiable.
func embType(s *embShape, path string) reflect.Type {
	str := reflect.TypeOf("")
	var fs []reflect.StructField
	n := 0
	add := func(tagged bool) {
		name := fmt.Sprintf("F%s_%d", path, n)
		n++
		f := reflect.StructField{Name: name, Type: str}
		if tagged {
			f.Tag = reflect.StructTag(`parser:"@Ident"`)
		}
		fs = append(fs, f)
	}
	if s.untagged {
		add(false)
	}
	for i := 0; i < s.before; i++ {
		add(true)
	}
	if s.child != nil {
		fs = append(fs, reflect.StructField{Name: fmt.Sprintf("E%s_%d", path, n), Type: embType(s.child, path+"x"), Anonymous: true})
		n++
	}
	for i := 0; i < s.after; i++ {
		add(true)
	}
	return reflect.StructOf(fs)
}

// embWant: the index path of every tagged field, outermost first, each a slice of its own.
func embWant(t reflect.Type, prefix []int) (paths [][]int, names []string) {
	for i := 0; i < t.NumField(); i++ {
		f := t.Field(i)
		p := append(append([]int{}, prefix...), i)
		switch {
		case f.Anonymous && f.Type.Kind() == reflect.Struct:
			cp, cn := embWant(f.Type, p)
			paths = append(paths, cp...)
			names = append(names, cn...)
		case f.Tag != "":
			paths = append(paths, p)
			names = append(names, f.Name)
		}
	}
	return
}

func (s *embShape) String() string {
	c := "-"
	if s.child != nil {
		c = "{" + s.child.String() + "}"
	}
	return fmt.Sprintf("%d%s%d%s", s.before, c, s.after, map[bool]string{true: "u", false: ""}[s.untagged])
}

type EmbInner struct {
	X string `"x" @Ident`
	Y string `"y" @Ident`
	Z string `"z" @Ident`
}
type EmbMid struct {
	M string `"m" @Ident`
	EmbInner
	N string `"n" @Ident`
}
type EmbOuter struct {
	EmbMid
	O string `"o" @Ident`
}
type EmbDeep struct {
	EmbOuter
	P string `"p" @Ident`
	Q string `"q" @Ident`
}
type embRoot struct {
	Head string `"h" @Ident`
	EmbDeep
	Tail string `"t" @Ident`
}

func TestVerif_C01C19_FieldIndexes(t *testing.T) {
	res := &verifResult{Check: "field index paths", Property: "C01 C19", Exhaustive: true,
		Bound: "all struct shapes with 0-2 tagged fields, an optional embedded struct (recursively, nesting depth <= 3, thorough: 4) or an untagged field, 0-2 tagged fields, built with reflect.StructOf; plus one hand-written grammar with four levels of embedding built and run on one input",
		Rule: "distinct shapes; non-trivial = an embedded struct at depth >= 2 with >= 2 grammar fields below it"}
	depth := 3
	if verifThorough() {
		depth = 4
	}
	for _, s := range embEnum(depth) {
		res.Evaluations++
		typ := embType(s, "")
		want, names := embWant(typ, nil)
		got, err := collectFieldIndexes(typ)
		if err != nil {
			res.violate("shape %s: collectFieldIndexes fails: %v", s, err)
			continue
		}
		if len(want) == 0 && len(got) == 0 {
			continue
		}
		if !reflect.DeepEqual(got, want) {
			res.violate("shape %s (%s): collectFieldIndexes gives %v; the grammar fields are at %v", s, typ, got, want)
			continue
		}
		if s.child != nil && s.child.child != nil && len(want) >= 2 {
			res.Distinct++
		}
		// what the tag lexer resolves through them
		if lx, err := lexStruct(typ); err != nil {
			res.violate("shape %s: lexStruct fails: %v", s, err)
		} else {
			for i := 0; i < lx.NumField(); i++ {
				if n := lx.GetField(i).Name; n != names[i] {
					res.violate("shape %s: grammar field %d resolves to %s, want %s", s, i, n, names[i])
				}
			}
		}
		if res.Evaluations%1777 == 3 {
			res.sample(fmt.Sprintf("%s => %v", s, got))
		}
	}
	// end to end
	func() {
		defer func() {
			if p := recover(); p != nil {
				res.violate("four-level grammar: panic: %v", p)
			}
		}()
		res.Evaluations++
		p, err := Build[embRoot]()
		if err != nil {
			res.violate("four-level embedded grammar is rejected by Build: %v", firstLineOf(err))
			return
		}
		in := "h hh m mm x xx y yy z zz n nn o oo p pp q qq t tt"
		v, err := p.ParseString("", in)
		if err != nil {
			res.violate("four-level embedded grammar: %q fails: %v", in, err)
			return
		}
		got := strings.Join([]string{v.Head, v.M, v.X, v.Y, v.Z, v.N, v.O, v.P, v.Q, v.Tail}, " ")
		if got != "hh mm xx yy zz nn oo pp qq tt" {
			res.violate("four-level embedded grammar: %q fills the fields with %q", in, got)
		}
		res.sample(in + " => " + got)
	}()
	res.emit(t)
}
