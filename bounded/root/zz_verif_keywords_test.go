package participle_test

import (
	"fmt"
	"strings"
	"testing"

	"github.com/alecthomas/participle/v2"
	"github.com/alecthomas/participle/v2/lexer"
)

// Bounded stand-in for choices between literals built from struct tags (the grammar-meaning differential builds its
// node graphs directly and so never runs parseDisjunction / parseLiteral): with and without CaseInsensitive, typed
// and untyped literals, against the property's rule "case-insensitive token types are compared by case folding but
// captured as written".

type kwPlain struct {
	V string `@( "asc" | "desc" )`
	W string `@Ident?`
}
type kwMixed struct {
	V string `@( "asc" | "desc":Ident | Int )`
	W string `@Ident?`
}
type kwSeq struct {
	V []string `( @"order" @"by" | @"order" | @"by" )`
	W string   `@Ident?`
}
type kwStr struct {
	V string `@( "asc" | "ſ" | "straße" )`
	W string `@( Ident | String )?`
}

// kwAlt is one alternative of the reference: the literal texts it matches in sequence ("" with typ: any text of that type).
type kwAlt struct {
	texts []string
	typ   string
}

func kwRef(alts []kwAlt, toks []lexer.Token, names map[lexer.TokenType]string, ci map[string]bool) (vals []string, rest []lexer.Token, ok bool) {
	match := func(t lexer.Token, text, typ string) bool {
		if typ != "" && names[t.Type] != typ {
			return false
		}
		if text == "" {
			return true
		}
		if ci[names[t.Type]] {
			return strings.EqualFold(t.Value, text)
		}
		return t.Value == text
	}
	for _, a := range alts {
		if len(toks) < len(a.texts) {
			continue
		}
		all := true
		for i, x := range a.texts {
			if !match(toks[i], x, a.typ) {
				all = false
				break
			}
		}
		if all {
			for i := range a.texts {
				vals = append(vals, toks[i].Value)
			}
			return vals, toks[len(a.texts):], true
		}
	}
	return nil, toks, false
}

func TestVerif_C01C10_KeywordChoices(t *testing.T) {
	res := &xResult{Check: "keyword choices", Property: "C01 C10", Exhaustive: true,
		Bound: "4 tag-built grammars (choice of untyped literals; typed literal and token reference mixed in; multi-token alternatives with a common prefix; non-ASCII literals whose case variants differ in length) x CaseInsensitive off / Ident / Ident+String (given after and before the Lexer option) x all inputs of <= 3 words over 12 words in several letter cases, lookahead 1 and 3",
		Rule: "distinct (grammar, option, input) triples; non-trivial = some word of the input differs from a literal only by case"}
	// (the token types are numbered unlike those of the default lexer, so that a name resolved against the wrong lexer shows)
	lex := lexer.MustSimple([]lexer.SimpleRule{{Name: "Int", Pattern: `\d+`}, {Name: "String", Pattern: `'[^']*'`}, {Name: "Whitespace", Pattern: `\s+`}, {Name: "Ident", Pattern: `[\pL]+`}})
	names := map[lexer.TokenType]string{}
	for n, ty := range lex.Symbols() {
		names[ty] = n
	}
	words := []string{"asc", "ASC", "Desc", "desc", "order", "BY", "by", "7", "x", "'asc'", "STRASSE", "straße", "STRAẞE", "ſ", "S", "s"}
	var inputs [][]string
	for _, a := range words {
		inputs = append(inputs, []string{a})
		for _, b := range words[:10] {
			inputs = append(inputs, []string{a, b})
			for _, c := range []string{"x", "ASC", "by"} {
				inputs = append(inputs, []string{a, b, c})
			}
		}
	}
	cis := []map[string]bool{{}, {"Ident": true}, {"Ident": true, "String": true}}
	type gcase struct {
		name string
		alts []kwAlt
		tail []string // token types the optional tail accepts
		run  func(opts []participle.Option, in string) (vals []string, w string, err error, berr error)
	}
	// the options in both orders: what CaseInsensitive names is resolved against the lexer of the finished parser
	lexerLast := false
	mk := func(opts []participle.Option) []participle.Option {
		if lexerLast {
			return append(append([]participle.Option{}, opts...), participle.Elide("Whitespace"), participle.Lexer(lex))
		}
		return append([]participle.Option{participle.Lexer(lex), participle.Elide("Whitespace")}, opts...)
	}
	cases := []gcase{
		{"plain", []kwAlt{{[]string{"asc"}, ""}, {[]string{"desc"}, ""}}, []string{"Ident"}, func(o []participle.Option, in string) ([]string, string, error, error) {
			p, berr := participle.Build[kwPlain](mk(o)...)
			if berr != nil {
				return nil, "", nil, berr
			}
			v, err := p.ParseString("", in)
			if v.V == "" {
				return nil, v.W, err, nil
			}
			return []string{v.V}, v.W, err, nil
		}},
		{"mixed", []kwAlt{{[]string{"asc"}, ""}, {[]string{"desc"}, "Ident"}, {[]string{""}, "Int"}}, []string{"Ident"}, func(o []participle.Option, in string) ([]string, string, error, error) {
			p, berr := participle.Build[kwMixed](mk(o)...)
			if berr != nil {
				return nil, "", nil, berr
			}
			v, err := p.ParseString("", in)
			if v.V == "" {
				return nil, v.W, err, nil
			}
			return []string{v.V}, v.W, err, nil
		}},
		{"seq", []kwAlt{{[]string{"order", "by"}, ""}, {[]string{"order"}, ""}, {[]string{"by"}, ""}}, []string{"Ident"}, func(o []participle.Option, in string) ([]string, string, error, error) {
			p, berr := participle.Build[kwSeq](mk(o)...)
			if berr != nil {
				return nil, "", nil, berr
			}
			v, err := p.ParseString("", in)
			return v.V, v.W, err, nil
		}},
		{"non-ascii", []kwAlt{{[]string{"asc"}, ""}, {[]string{"ſ"}, ""}, {[]string{"straße"}, ""}}, []string{"Ident", "String"}, func(o []participle.Option, in string) ([]string, string, error, error) {
			p, berr := participle.Build[kwStr](mk(o)...)
			if berr != nil {
				return nil, "", nil, berr
			}
			v, err := p.ParseString("", in)
			if v.V == "" {
				return nil, v.W, err, nil
			}
			return []string{v.V}, v.W, err, nil
		}},
	}
	for _, g := range cases {
		for ord, ci := range append(append([]map[string]bool{}, cis...), cis[1:]...) {
			lexerLast = ord >= len(cis)
			var ciNames []string
			for n := range ci {
				ciNames = append(ciNames, n)
			}
			for _, k := range []int{1, 3} {
				opts := []participle.Option{participle.UseLookahead(k)}
				if len(ciNames) > 0 {
					opts = append(opts, participle.CaseInsensitive(ciNames...))
				}
				for _, ws := range inputs {
					in := strings.Join(ws, " ")
					res.Evaluations++
					toks, lerr := lex.LexString("", in)
					if lerr != nil {
						continue
					}
					all, _ := lexer.ConsumeAll(toks)
					var sig []lexer.Token
					for _, tk := range all {
						if !tk.EOF() && names[tk.Type] != "Whitespace" {
							sig = append(sig, tk)
						}
					}
					// the reference: first alternative that matches, then the optional tail, then end of input
					wantVals, rest, ok := kwRef(g.alts, sig, names, ci)
					wantW := ""
					if ok && len(rest) > 0 {
						for _, ty := range g.tail {
							if names[rest[0].Type] == ty {
								wantW = rest[0].Value
								rest = rest[1:]
								break
							}
						}
					}
					accept := ok && len(rest) == 0
					for _, w := range ws {
						for _, a := range g.alts {
							for _, x := range a.texts {
								if x != "" && w != x && strings.EqualFold(w, x) {
									res.Distinct++
								}
							}
						}
					}
					func() {
						defer func() {
							if p := recover(); p != nil {
								res.violate("grammar %s, CaseInsensitive%v, lookahead %d, input %q: panic: %v", g.name, ciNames, k, in, p)
							}
						}()
						vals, w, err, berr := g.run(opts, in)
						if berr != nil {
							res.violate("grammar %s, CaseInsensitive%v: Build: %v", g.name, ciNames, berr)
							return
						}
						if (err == nil) != accept {
							res.violate("grammar %s, CaseInsensitive%v, lookahead %d, input %q: error %v; the grammar %s it", g.name, ciNames, k, in, err, map[bool]string{true: "accepts", false: "rejects"}[accept])
							return
						}
						if err == nil && (fmt.Sprint(vals) != fmt.Sprint(wantVals) || w != wantW) {
							res.violate("grammar %s, CaseInsensitive%v, lookahead %d, input %q: captured %q and %q, the accepted derivation captures %q and %q (as written)", g.name, ciNames, k, in, vals, w, wantVals, wantW)
						}
					}()
					if res.Evaluations%2999 == 1 && len(res.Samples) < 6 {
						res.Samples = append(res.Samples, fmt.Sprintf("%s CI%v %q => accept=%v %q", g.name, ciNames, in, accept, wantVals))
					}
				}
			}
		}
	}
	res.emit(t)
}
