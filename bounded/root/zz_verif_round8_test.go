package participle_test

import (
	"errors"
	"fmt"
	"io"
	"strings"
	"testing"

	"github.com/alecthomas/participle/v2"
	"github.com/alecthomas/participle/v2/lexer"
)

// Bounded stand-ins added after the eighth round of seeded changes.

// ---- C02: captures into pointer fields inside an abandoned attempt leave no trace ----

type r8Ptrs struct {
	Key   *string `( @Ident "=" )?`
	N     *int    `( @Int ":" )?`
	Flag  *bool   `( @"!" "!" )?`
	Probe *string `(?! @Ident "?" )`
	Rest  []string `@( Ident | Int | "!" | "=" | ":" )*`
}

func TestVerif_C02_PointerFieldsInAbandonedAttempts(t *testing.T) {
	res := &xResult{Check: "pointer fields in abandoned attempts", Property: "C02", Exhaustive: true,
		Bound: "one grammar with *string, *int and *bool captures inside optional groups and a negative lookahead group, all inputs of <= 3 tokens over {a, 7, !, =, :, ?}, lookahead 1, 3, MaxLookahead",
		Rule: "(input, lookahead) pairs; non-trivial = some group starts to match and is abandoned"}
	lex := lexer.MustSimple([]lexer.SimpleRule{{Name: "Ident", Pattern: `[a-z]+`}, {Name: "Int", Pattern: `\d+`}, {Name: "Punct", Pattern: `[!=:?]`}, {Name: "whitespace", Pattern: `\s+`}})
	toks := []string{"a", "7", "!", "=", ":", "?"}
	var inputs [][]string
	for _, a := range toks {
		inputs = append(inputs, []string{a})
		for _, b := range toks {
			inputs = append(inputs, []string{a, b})
			for _, c := range toks {
				inputs = append(inputs, []string{a, b, c})
			}
		}
	}
	for _, k := range []int{1, 3, participle.MaxLookahead} {
		p, err := participle.Build[r8Ptrs](participle.Lexer(lex), participle.UseLookahead(k))
		if err != nil {
			res.violate("Build: %v", err)
			break
		}
		for _, ws := range inputs {
			res.Evaluations++
			in := strings.Join(ws, " ")
			v, err := p.ParseString("", in)
			if err != nil || v == nil {
				continue
			}
			// what each group must have captured: it matched completely or not at all
			i := 0
			wantKey, wantN, wantFlag := "<nil>", "<nil>", "<nil>"
			if len(ws) >= 2 && ws[0] == "a" && ws[1] == "=" {
				wantKey, i = "a", 2
			}
			if len(ws) >= i+2 && ws[i] == "7" && ws[i+1] == ":" {
				wantN, i = "7", i+2
			}
			if len(ws) >= i+2 && ws[i] == "!" && ws[i+1] == "!" {
				wantFlag, i = "true", i+2
			}
			if i < len(ws) {
				res.Distinct++
			}
			show := func(x interface{}) string {
				switch y := x.(type) {
				case *string:
					if y != nil {
						return *y
					}
				case *int:
					if y != nil {
						return fmt.Sprint(*y)
					}
				case *bool:
					if y != nil {
						return fmt.Sprint(*y)
					}
				}
				return "<nil>"
			}
			if show(v.Key) != wantKey || show(v.N) != wantN || show(v.Flag) != wantFlag || v.Probe != nil {
				res.violate("lookahead %d, input %q: Key=%s N=%s Flag=%s Probe=%s; the accepted derivation captures Key=%s N=%s Flag=%s and nothing inside the lookahead group", k, in, show(v.Key), show(v.N), show(v.Flag), show(v.Probe), wantKey, wantN, wantFlag)
			}
		}
	}
	res.emit(t)
}

// ---- C11: Pos of a node whose first token is consumed by a production that parses itself ----

type r8Head struct{ V string }

func (h *r8Head) Parse(lex *lexer.PeekingLexer) error {
	t := lex.Peek()
	if t.EOF() || t.Value == "=" || t.Value == ";" {
		return participle.NextMatch
	}
	h.V = lex.Next().Value
	return nil
}

type r8Assign struct {
	Pos    lexer.Position
	EndPos lexer.Position
	Tokens []lexer.Token
	Target *r8Head `@@ "="`
	Value  string  `@Ident ";"`
}
type r8Prog struct {
	Pos    lexer.Position
	Tokens []lexer.Token
	Stmts  []*r8Assign `@@*`
}

func TestVerif_C11_PosAfterSelfParsingChild(t *testing.T) {
	res := &xResult{Check: "Pos after a self-parsing child", Property: "C11", Exhaustive: true,
		Bound: "one grammar whose statements begin with a Parseable child, 4 inputs x 3 spacings",
		Rule: "(input, spacing) pairs; all non-trivial"}
	lex := lexer.MustSimple([]lexer.SimpleRule{{Name: "Ident", Pattern: `[a-z]+`}, {Name: "Punct", Pattern: `[=;]`}, {Name: "Whitespace", Pattern: `\s+`}})
	p, err := participle.Build[r8Prog](participle.Lexer(lex), participle.Elide("Whitespace"))
	if err != nil {
		res.violate("Build: %v", err)
		res.emit(t)
		return
	}
	for _, words := range [][]string{{"a", "=", "b", ";"}, {"a", "=", "b", ";", "cc", "=", "d", ";"}, {"x", "=", "y", ";", "a", "=", "b", ";", "q", "=", "r", ";"}} {
		for _, sep := range []string{" ", "", "\n  "} {
			res.Evaluations++
			res.Distinct++
			in := sep + strings.Join(words, sep) + sep
			v, err := p.ParseString("", in)
			if err != nil {
				res.violate("input %q: %v", in, err)
				continue
			}
			for i, st := range v.Stmts {
				first := words[4*i]
				var ft *lexer.Token
				for k := range st.Tokens {
					if strings.TrimSpace(st.Tokens[k].Value) != "" {
						ft = &st.Tokens[k]
						break
					}
				}
				if ft == nil || ft.Value != first || st.Pos != ft.Pos {
					res.violate("input %q, statement %d: Pos %v, its run is %v; the statement starts with %q", in, i, st.Pos, st.Tokens, first)
				}
				if st.Tokens[len(st.Tokens)-1].Value != ";" {
					res.violate("input %q, statement %d: the run %v does not end with the statement's last token", in, i, st.Tokens)
				}
			}
		}
	}
	res.emit(t)
}

// ---- C15: errors of user code below the root come back the same through every entry point ----

type r8Ver struct{ Parts []string }

var errTooMany = errors.New("version has too many components")

func (v *r8Ver) Parse(lex *lexer.PeekingLexer) error {
	for {
		t := lex.Peek()
		if t.EOF() || t.Value[0] < '0' || t.Value[0] > '9' {
			break
		}
		v.Parts = append(v.Parts, lex.Next().Value)
		if len(v.Parts) > 2 {
			return errTooMany
		}
	}
	if len(v.Parts) == 0 {
		return participle.NextMatch
	}
	return nil
}

type r8Dep struct {
	Name string `@Ident`
	Ver  *r8Ver `@@?`
}
type r8Deps struct {
	Deps []*r8Dep `@@*`
}

func TestVerif_C15C06_UserErrorsAcrossEntryPoints(t *testing.T) {
	res := &xResult{Check: "user errors across entry points", Property: "C15 C06", Exhaustive: true,
		Bound: "one grammar with a Parseable below the root that fails with a plain error, 4 inputs (incl. text that is not valid UTF-8) x 4 entry points x Trace on/off",
		Rule: "(input, entry point) pairs; non-trivial = the input makes the user code fail or is not valid UTF-8"}
	lex := lexer.MustSimple([]lexer.SimpleRule{{Name: "Ident", Pattern: `[a-z\x80-\xff]+`}, {Name: "Int", Pattern: `\d+`}, {Name: "Whitespace", Pattern: `\s+`}})
	p, err := participle.Build[r8Deps](participle.Lexer(lex), participle.Elide("Whitespace"))
	if err != nil {
		res.violate("Build: %v", err)
		res.emit(t)
		return
	}
	render := func(v *r8Deps, err error) string {
		s := ""
		if v != nil {
			for _, d := range v.Deps {
				s += d.Name
				if d.Ver != nil {
					s += fmt.Sprint(d.Ver.Parts)
				}
				s += " "
			}
		} else {
			s = "<nil> "
		}
		if err != nil {
			s += fmt.Sprintf("ERR %T %s", err, err)
		}
		return s
	}
	for _, in := range []string{"a 1 2 b", "a 1 2 3 b", "caf\xe9 1", "a 1 2 3 4 \xff"} {
		want := render(p.ParseString("f", in))
		got := map[string]string{
			"ParseBytes": render(p.ParseBytes("f", []byte(in))),
			"Parse":      render(p.Parse("f", strings.NewReader(in))),
		}
		if lx, lerr := p.Lexer().Lex("f", strings.NewReader(in)); lerr == nil {
			if pl, uerr := lexer.Upgrade(lx, p.Lexer().Symbols()["Whitespace"]); uerr == nil {
				got["ParseFromLexer"] = render(p.ParseFromLexer(pl))
			}
		}
		got["ParseString with Trace"] = render(p.ParseString("f", in, participle.Trace(&strings.Builder{})))
		for name, g := range got {
			res.Evaluations++
			res.Distinct++
			if g != want {
				res.violate("input %q: %s gives %s, ParseString gives %s", in, name, g, want)
			}
		}
	}
	res.emit(t)
}

// ---- C19 / C08: Union members that parse themselves or are registered by pointer ----

type r8Val interface{ r8Val() }
type r8Self struct{ V string }

func (s *r8Self) Parse(lex *lexer.PeekingLexer) error { s.V = lex.Next().Value; return nil }
func (*r8Self) r8Val()                                 {}

type r8Plain struct {
	W string `"(" @Ident ")"`
}

func (*r8Plain) r8Val() {}

type r8Sum struct {
	L  r8Val  `@@`
	Op string `@"+"`
	R  string `@Ident`
}

func (*r8Sum) r8Val() {}

type r8Root struct {
	V r8Val `@@`
}
type r8Other struct {
	A string `@Ident`
}

type r8Self2 interface{ r8Self2() }
type r8List2 []r8Self2
type r8Leaf2 struct {
	V string `@Ident`
}

func (r8List2) r8Self2() {}
func (r8Leaf2) r8Self2() {}

func TestVerif_C19C08_UnionMemberKinds(t *testing.T) {
	res := &xResult{Check: "union member kinds", Property: "C19 C08", Exhaustive: true,
		Bound: "unions with a Parseable member and with members registered by pointer, reached and not reached from the root; one of them left-recursive",
		Rule: "builds; all non-trivial"}
	build := func(f func() error) (err error) {
		defer func() {
			if r := recover(); r != nil {
				err = fmt.Errorf("PANIC %v", r)
			}
		}()
		return f()
	}
	cases := []struct {
		name string
		f    func() error
		ok   bool
	}{
		{"a union with a Parseable member, used by the root", func() error {
			_, err := participle.Build[r8Root](participle.Union[r8Val](&r8Plain{}, &r8Self{}))
			return err
		}, true},
		{"a union with a Parseable member, not reached from the root", func() error {
			_, err := participle.Build[r8Other](participle.Union[r8Val](&r8Plain{}, &r8Self{}))
			return err
		}, true},
		{"a union registered by pointer with a left-recursive member, not reached from the root", func() error {
			_, err := participle.Build[r8Other](participle.Union[r8Val](&r8Sum{}, &r8Plain{}))
			return err
		}, false},
		{"a union registered by pointer with a left-recursive member, used by the root", func() error {
			_, err := participle.Build[r8Root](participle.Union[r8Val](&r8Sum{}, &r8Plain{}))
			return err
		}, false},
	}
	cases = append(cases, struct {
		name string
		f    func() error
		ok   bool
	}{"a union type as the root of the grammar", func() error {
		p, err := participle.Build[r8Val](participle.Union[r8Val](&r8Plain{}, &r8Self{}))
		if err != nil {
			return err
		}
		v, err := p.ParseString("", "( a )")
		if err == nil && v == nil {
			return fmt.Errorf("nil AST")
		}
		return err
	}, true})
	cases = append(cases, struct {
		name string
		f    func() error
		ok   bool
	}{"a union with a member that is a slice of the union type itself", func() error {
		_, err := participle.Build[r8Other](participle.Union[r8Self2](r8Leaf2{}, r8List2{}))
		return err
	}, false})
	for _, c := range cases {
		res.Evaluations++
		res.Distinct++
		err := build(c.f)
		if err != nil && strings.HasPrefix(err.Error(), "PANIC") {
			res.violate("%s: Build panicked: %v", c.name, err)
		} else if (err == nil) != c.ok {
			res.violate("%s: Build returned %v", c.name, err)
		}
	}
	res.emit(t)
}

// ---- C06 / C11: position fields behind an embedded pointer are not the node's (F33) ----

type r8Meta struct {
	Pos    lexer.Position
	EndPos lexer.Position
	Tokens []lexer.Token
}
type r8PtrEmbed struct {
	*r8Meta
	Name string `@Ident`
}
type r8ValEmbed struct {
	r8Meta
	Name string `@Ident`
}

func TestVerif_C06C11_EmbeddedPositionFields(t *testing.T) {
	res := &xResult{Check: "embedded position fields", Property: "C06 C11", Exhaustive: true,
		Bound: "Pos / EndPos / Tokens promoted through an embedded struct value and through an embedded pointer, 2 inputs",
		Rule: "(grammar, input) pairs; all non-trivial"}
	for _, in := range []string{"hello", "  hello "} {
		res.Evaluations += 2
		res.Distinct += 2
		func() {
			defer func() {
				if r := recover(); r != nil {
					res.violate("embedded pointer, input %q: panic: %v", in, r)
				}
			}()
			p, err := participle.Build[r8PtrEmbed]()
			if err != nil {
				return // rejecting the grammar is fine too
			}
			v, err := p.ParseString("f", in)
			if err != nil || v.Name != "hello" {
				res.violate("embedded pointer, input %q: %v %v", in, v, err)
			}
		}()
		func() {
			defer func() {
				if r := recover(); r != nil {
					res.violate("embedded value, input %q: panic: %v", in, r)
				}
			}()
			p, err := participle.Build[r8ValEmbed]()
			if err != nil {
				res.violate("embedded value: Build: %v", err)
				return
			}
			v, err := p.ParseString("f", in)
			if err != nil || v.Name != "hello" || v.Pos.Offset != strings.Index(in, "h") || len(v.Tokens) != 1 || v.EndPos.Offset < strings.Index(in, "h")+5 {
				res.violate("embedded value, input %q: %+v %v", in, v, err)
			}
		}()
	}
	res.emit(t)
}

// ---- C15: Parser.Lex names the tokens as Parser.Parse does (F34) ----

type r8Named struct {
	io.Reader
	name string
}

func (n r8Named) Name() string { return n.name }

type r8Bad struct {
	A string `@Ident`
	B string `@Ident`
}

func TestVerif_C15_LexFilename(t *testing.T) {
	res := &xResult{Check: "Lex filename", Property: "C15", Exhaustive: true,
		Bound: "a reader with a Name() method, filename given and not given, Lex against the position Parse reports for the same reader",
		Rule: "(filename given?) cases; all non-trivial"}
	p, err := participle.Build[r8Bad]()
	if err != nil {
		res.violate("Build: %v", err)
		res.emit(t)
		return
	}
	for _, fn := range []string{"", "given.txt"} {
		res.Evaluations++
		res.Distinct++
		toks, lerr := p.Lex(fn, r8Named{strings.NewReader("a 1"), "reader.txt"})
		_, perr := p.Parse(fn, r8Named{strings.NewReader("a 1"), "reader.txt"})
		pe, ok := perr.(participle.Error)
		if lerr != nil || !ok || len(toks) < 2 {
			res.violate("filename %q: Lex %v, Parse %v", fn, lerr, perr)
			continue
		}
		if toks[1].Pos != pe.Position() {
			res.violate("filename %q: Lex places the token %q at %v, the parse of the same reader reports it at %v", fn, toks[1].Value, toks[1].Pos, pe.Position())
		}
	}
	res.emit(t)
}
