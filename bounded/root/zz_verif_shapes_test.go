package participle_test

import (
	"fmt"
	"os"
	"reflect"
	"strings"
	"testing"

	"github.com/alecthomas/participle/v2"
	"github.com/alecthomas/participle/v2/lexer"
)

// Bounded stand-in for the reflection half of C11 (newStrct / maybeInject*, outside the reach of the contracts):
// whichever of Pos / EndPos / Tokens a node declares, with whichever convertible position type, directly or through
// an embedded struct, each declared field holds what the property says; fields of other types are left alone.

type shLoc lexer.Position // convertible to and from lexer.Position

type shMeta struct {
	Pos    lexer.Position
	EndPos lexer.Position
	Tokens []lexer.Token
}

type (
	shAll struct {
		Pos    lexer.Position
		EndPos lexer.Position
		Tokens []lexer.Token
		V      string `@Ident`
	}
	shEndOnly struct {
		EndPos lexer.Position
		Tokens []lexer.Token
		V      string `@Ident`
	}
	shPosOnly struct {
		Pos lexer.Position
		V   string `@Ident`
	}
	shTokensOnly struct {
		Tokens []lexer.Token
		V      string `@Ident`
	}
	shEndNoTokens struct {
		EndPos shLoc
		V      string `@Ident`
	}
	shMixed1 struct {
		Pos    lexer.Position
		EndPos shLoc
		Tokens []lexer.Token
		V      string `@Ident`
	}
	shMixed2 struct {
		Pos    shLoc
		EndPos lexer.Position
		Tokens []lexer.Token
		V      string `@Ident`
	}
	shBothLoc struct {
		Pos    shLoc
		EndPos shLoc
		V      string `@Ident`
	}
	shEmbedded struct {
		shMeta
		V string `@Ident`
	}
	shForeignPos struct {
		Pos    int // not a position: must be left alone
		EndPos lexer.Position
		Tokens []lexer.Token
		V      string `@Ident`
	}
	shPair struct {
		Pos    lexer.Position
		EndPos lexer.Position
		Tokens []lexer.Token
		K      string `@Ident "="`
		V      string `@Ident`
	}
)

// shRoot: every item is introduced by a distinguishing integer so that the alternatives are LL(1).
type shRoot struct {
	Pos    lexer.Position
	EndPos lexer.Position
	Tokens []lexer.Token
	Items  []*shItem `@@*`
}
type shItem struct {
	Pos    lexer.Position
	EndPos lexer.Position
	Tokens []lexer.Token
	A      *shAll        `  "0" @@`
	B      *shEndOnly    `| "1" @@`
	C      *shPosOnly    `| "2" @@`
	D      *shTokensOnly `| "3" @@`
	E      *shEndNoTokens `| "4" @@`
	F      *shMixed1     `| "5" @@`
	G      *shMixed2     `| "6" @@`
	H      *shBothLoc    `| "7" @@`
	I      *shEmbedded   `| "8" @@`
	J      *shForeignPos `| "9" @@`
	K      *shPair       `| "10" @@`
}

func TestVerif_C11_NodeShapes(t *testing.T) {
	res := &xResult{Check: "node shapes", Property: "C11", Exhaustive: true,
		Bound: "11 node shapes (every subset of Pos / EndPos / Tokens that occurs with lexer.Position and with a convertible named position type, through an embedded struct, and with a Pos field of a foreign type) x all sequences of <= 3 (thorough: 4) items x 3 spacings (tight, spaces, comments and newlines)",
		Rule: "distinct (item sequence, spacing) inputs; non-trivial = at least one item"}
	lex := lexer.MustSimple([]lexer.SimpleRule{
		{Name: "Comment", Pattern: `/\*[^*]*\*/`}, {Name: "Ident", Pattern: `[a-z]+`}, {Name: "Int", Pattern: `\d+`},
		{Name: "Punct", Pattern: `[=]`}, {Name: "Whitespace", Pattern: `\s+`}})
	p, err := participle.Build[shRoot](participle.Lexer(lex), participle.Elide("Whitespace", "Comment"), participle.UseLookahead(2))
	if err != nil {
		res.violate("Build: %v", err)
		res.emit(t)
		return
	}
	elided := map[lexer.TokenType]bool{lex.Symbols()["Whitespace"]: true, lex.Symbols()["Comment"]: true}
	maxItems := 3
	if os.Getenv("VERIF_TIER") == "thorough" {
		maxItems = 4
	}
	kinds := 11
	var seqs [][]int
	var gen func(cur []int)
	gen = func(cur []int) {
		seqs = append(seqs, append([]int{}, cur...))
		if len(cur) == maxItems {
			return
		}
		for k := 0; k < kinds; k++ {
			gen(append(cur, k))
		}
	}
	gen(nil)
	seps := [][2]string{{" ", ""}, {"  ", " "}, {" /*c*/\n", "\n /*lead*/ "}}
	for _, seq := range seqs {
		for si, sep := range seps {
			var sb strings.Builder
			sb.WriteString(sep[1])
			for i, k := range seq {
				if i > 0 {
					sb.WriteString(sep[0])
				}
				fmt.Fprintf(&sb, "%d%sw", k, sep[0])
				if k == 10 {
					fmt.Fprintf(&sb, "%s=%sv", sep[0], sep[0])
				}
			}
			sb.WriteString(sep[1])
			in := sb.String()
			res.Evaluations++
			if len(seq) > 0 {
				res.Distinct++
			}
			raw, lerr := p.Lex("", strings.NewReader(in))
			if lerr != nil {
				res.violate("input %q does not lex: %v", in, lerr)
				continue
			}
			root, perr := p.ParseString("", in)
			if perr != nil || len(root.Items) != len(seq) {
				res.violate("input %q: parse gives %d items, %v", in, len(root.Items), perr)
				continue
			}
			// the raw index of each item's first token: items are in order, each starts at its integer
			at := 0
			next := func(pred func(lexer.Token) bool) int {
				for at < len(raw) && !pred(raw[at]) {
					at++
				}
				return at
			}
			nonElidedFrom := func(i int) int {
				for i < len(raw)-1 && elided[raw[i].Type] {
					i++
				}
				return i
			}
			for i, it := range root.Items {
				k := seq[i]
				istart := next(func(t lexer.Token) bool { return t.Value == fmt.Sprint(k) && !elided[t.Type] })
				// the item's run: from the raw cursor where it started (istartRaw) through its last token
				words := 1
				if k == 10 {
					words = 3
				}
				// last consumed token of the item: walk non-elided tokens
				j := istart
				for w := 0; w < words; w++ {
					j = nonElidedFrom(j + 1)
				}
				last := j
				// the inner node starts (raw cursor) right after the integer and ends at `last`
				innerStartRaw := istart + 1
				innerFirst := nonElidedFrom(innerStartRaw)
				wantPos, wantEnd, wantToks := raw[innerFirst].Pos, raw[last+1].Pos, raw[innerStartRaw:last+1]
				desc := fmt.Sprintf("input %q: item %d (shape %d, spacing %d)", in, i, k, si)
				chkPos := func(name string, got lexer.Position) {
					if got != wantPos {
						res.violate("%s: %s is %v, the node's first non-elided token is at %v", desc, name, got, wantPos)
					}
				}
				chkEnd := func(name string, got lexer.Position) {
					if got != wantEnd {
						res.violate("%s: %s is %v, the token right after the node's last consumed token is at %v", desc, name, got, wantEnd)
					}
				}
				chkToks := func(got []lexer.Token) {
					if !reflect.DeepEqual(got, wantToks) {
						res.violate("%s: Tokens is %v, the node consumed %v", desc, got, wantToks)
					}
				}
				switch k {
				case 0:
					chkPos("Pos", it.A.Pos)
					chkEnd("EndPos", it.A.EndPos)
					chkToks(it.A.Tokens)
				case 1:
					chkEnd("EndPos", it.B.EndPos)
					chkToks(it.B.Tokens)
				case 2:
					chkPos("Pos", it.C.Pos)
				case 3:
					chkToks(it.D.Tokens)
				case 4:
					chkEnd("EndPos", lexer.Position(it.E.EndPos))
				case 5:
					chkPos("Pos", it.F.Pos)
					chkEnd("EndPos", lexer.Position(it.F.EndPos))
					chkToks(it.F.Tokens)
				case 6:
					chkPos("Pos", lexer.Position(it.G.Pos))
					chkEnd("EndPos", it.G.EndPos)
					chkToks(it.G.Tokens)
				case 7:
					chkPos("Pos", lexer.Position(it.H.Pos))
					chkEnd("EndPos", lexer.Position(it.H.EndPos))
				case 8:
					chkPos("embedded Pos", it.I.Pos)
					chkEnd("embedded EndPos", it.I.EndPos)
					chkToks(it.I.Tokens)
				case 9:
					if it.J.Pos != 0 {
						res.violate("%s: the int field named Pos was written (%d)", desc, it.J.Pos)
					}
					chkEnd("EndPos", it.J.EndPos)
					chkToks(it.J.Tokens)
				case 10:
					chkPos("Pos", it.K.Pos)
					chkEnd("EndPos", it.K.EndPos)
					chkToks(it.K.Tokens)
				}
				// the item node itself: starts at the raw cursor where the previous item ended
				if it.Pos != raw[istart].Pos {
					res.violate("%s: the item's Pos is %v, its first token is at %v", desc, it.Pos, raw[istart].Pos)
				}
				if it.EndPos != wantEnd {
					res.violate("%s: the item's EndPos is %v, want %v", desc, it.EndPos, wantEnd)
				}
				if n := len(it.Tokens); n == 0 || it.Tokens[n-1] != raw[last] {
					res.violate("%s: the item's Tokens do not end at its last consumed token %v: %v", desc, raw[last], it.Tokens)
				}
				at = last + 1
			}
			if res.Evaluations%997 == 3 && len(res.Samples) < 6 {
				res.Samples = append(res.Samples, fmt.Sprintf("%q -> %d items", in, len(root.Items)))
			}
		}
	}
	res.emit(t)
}
