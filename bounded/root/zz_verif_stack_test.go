package participle_test

import (
	"fmt"
	"runtime/debug"
	"strings"
	"testing"

	"github.com/alecthomas/participle/v2"
	"github.com/alecthomas/participle/v2/lexer"
)

// Bounded stand-in for the clause of C06 that no contract here decides for the parser proper: flat input of any
// length needs bounded stack. Long flat inputs are parsed with the goroutine stack capped far below what a recursion
// per token (or per statement) would need; a stack overflow is fatal and is reported by the driver as a violation.

type stItem struct {
	K string `@Ident "="`
	V string `@( Ident | Int | String ) ";"`
}
type stFlat struct {
	Words []string  `( @Ident ","? )*`
	Items []*stItem `( "!" @@ )*`
}

func TestVerif_C06_FlatInputStack(t *testing.T) {
	res := &xResult{Check: "flat input stack", Property: "C06", Exhaustive: false,
		Bound: "4 flat inputs of 100 000 to 200 000 tokens or ignored tokens (words, comma-separated words, repeated sub-productions, comment lines) with lookahead 1 and unlimited, goroutine stack capped at 16 MiB",
		Rule: "(input shape, lookahead) pairs; all non-trivial"}
	old := debug.SetMaxStack(16 << 20)
	defer debug.SetMaxStack(old)
	lex := lexer.MustSimple([]lexer.SimpleRule{{Name: "Ident", Pattern: `[a-z]+`}, {Name: "Int", Pattern: `\d+`}, {Name: "String", Pattern: `"[^"]*"`},
		{Name: "Punct", Pattern: `[,=;!]`}, {Name: "comment", Pattern: `#[^\n]*`}, {Name: "whitespace", Pattern: `\s+`}})
	inputs := map[string]string{
		"200000 words":              strings.Repeat("ab ", 200000),
		"100000 words with commas":  strings.Repeat("ab, ", 100000),
		"100000 sub-productions":    strings.Repeat("! k = 1;\n", 100000),
		"100000 comment lines":      strings.Repeat("# c\n", 100000) + "x",
	}
	for _, k := range []int{1, -1} {
		p, err := participle.Build[stFlat](participle.Lexer(lex), participle.UseLookahead(k))
		if err != nil {
			res.violate("Build: %v", err)
			break
		}
		for name, in := range inputs {
			res.Evaluations++
			res.Distinct++
			v, err := p.ParseString("", in)
			if err != nil {
				res.violate("%s, lookahead %d: %v", name, k, err)
				continue
			}
			if n := len(v.Words) + len(v.Items); n == 0 {
				res.violate("%s, lookahead %d: nothing parsed", name, k)
			}
			if len(res.Samples) < 4 {
				res.Samples = append(res.Samples, fmt.Sprintf("%s, lookahead %d: %d words, %d items", name, k, len(v.Words), len(v.Items)))
			}
		}
	}
	res.emit(t)
}
