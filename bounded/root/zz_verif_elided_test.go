package participle_test

import (
	"fmt"
	"os"
	"strings"
	"testing"

	"github.com/alecthomas/participle/v2"
	"github.com/alecthomas/participle/v2/lexer"
)

// Bounded stand-in for grammars that name an elided token type and for repeated captures into token-list fields,
// two corners the enumerated grammar family does not have: a choice whose alternative matches an elided token
// (the "accepted but did not progress" guard of disjunction.Parse must not fire on it), and the node token runs
// (C11) when captures are stored into lexer.Token / []lexer.Token fields over and over.

type elItem struct {
	Tokens  []lexer.Token
	Comment string `  @Comment`
	Word    string `| @Ident`
}
type elDoc struct {
	Tokens []lexer.Token
	Items  []*elItem `@@*`
}
type elRuns struct {
	Tokens []lexer.Token
	Run    []lexer.Token `( @Ident | @Comment )*`
	Last   lexer.Token   `( ";" @Ident )?`
}
type elStmt struct {
	Tokens []lexer.Token
	Words  []lexer.Token `( @Ident )+ ";"`
}
type elFile struct {
	Tokens []lexer.Token
	Stmts  []*elStmt `@@*`
}

func TestVerif_C06C11C10_ElidedNamed(t *testing.T) {
	res := &xResult{Check: "named elided tokens", Property: "C06 C11 C10", Exhaustive: true,
		Bound: "3 grammars (a choice between a named elided token and an ordinary one; captures of both into a []lexer.Token field; one capture per token into a []lexer.Token field inside repeated sub-productions) x all inputs of <= 5 (thorough: 6) pieces over {a, bb, /*c*/, space, ;, 1}, lookahead 1 and unlimited",
		Rule: "distinct (grammar, lookahead, input) triples; non-trivial = the input holds an elided token"}
	lex := lexer.MustSimple([]lexer.SimpleRule{{Name: "Comment", Pattern: `/\*[^*]*\*/`}, {Name: "Ident", Pattern: `[a-z]+`}, {Name: "Int", Pattern: `\d+`}, {Name: "Punct", Pattern: `;`}, {Name: "Whitespace", Pattern: `\s+`}})
	names := map[lexer.TokenType]string{}
	for n, ty := range lex.Symbols() {
		names[ty] = n
	}
	alpha := []string{"a", "bb", "/*c*/", " ", ";", "1"}
	maxLen := 5
	if os.Getenv("VERIF_TIER") == "thorough" {
		maxLen = 6
	}
	var inputs []string
	var rec func(s string, n int, last string)
	rec = func(s string, n int, last string) {
		inputs = append(inputs, s)
		if n == maxLen {
			return
		}
		for _, a := range alpha {
			if (a == "a" || a == "bb") && (last == "a" || last == "bb") {
				continue // adjacent words would lex as one
			}
			if a == "1" && last == "1" {
				continue
			}
			rec(s+a, n+1, a)
		}
	}
	rec("", 0, "")
	render := func(ts []lexer.Token) string {
		var parts []string
		for _, tk := range ts {
			parts = append(parts, fmt.Sprintf("%s@%d", tk.Value, tk.Pos.Offset))
		}
		return strings.Join(parts, " ")
	}
	for _, k := range []int{1, -1} {
		opts := []participle.Option{participle.Lexer(lex), participle.Elide("Comment", "Whitespace"), participle.UseLookahead(k)}
		pd, err1 := participle.Build[elDoc](opts...)
		pr, err2 := participle.Build[elRuns](opts...)
		pf, err3 := participle.Build[elFile](opts...)
		if err1 != nil || err2 != nil || err3 != nil {
			res.violate("Build: %v %v %v", err1, err2, err3)
			break
		}
		for _, in := range inputs {
			raw, lerr := pd.Lex("", strings.NewReader(in))
			if lerr != nil {
				continue
			}
			raw = raw[:len(raw)-1] // drop EOF
			var sig []lexer.Token
			for _, tk := range raw {
				if names[tk.Type] != "Whitespace" {
					sig = append(sig, tk)
				}
			}
			if strings.ContainsAny(in, " /") {
				res.Distinct += 3
			}
			// ---- grammar 1: ( @Comment | @Ident )* as sub-productions ----
			res.Evaluations++
			func() {
				defer func() {
					if p := recover(); p != nil {
						res.violate("grammar (@Comment | @Ident)*, lookahead %d, input %q: panic: %v", k, in, p)
					}
				}()
				accept := true
				var want []string
				for _, tk := range sig {
					if n := names[tk.Type]; n != "Comment" && n != "Ident" {
						accept = false
						break
					}
					want = append(want, tk.Value)
				}
				v, err := pd.ParseString("", in)
				if (err == nil) != accept {
					res.violate("grammar (@Comment | @Ident)*, lookahead %d, input %q: error %v, the grammar %s it", k, in, err, map[bool]string{true: "accepts", false: "rejects"}[accept])
					return
				}
				if err != nil {
					return
				}
				var got []string
				for _, it := range v.Items {
					got = append(got, it.Comment+it.Word)
					// a node's run ends at its last consumed token and holds it
					if len(it.Tokens) == 0 || it.Tokens[len(it.Tokens)-1].Value != it.Comment+it.Word {
						res.violate("grammar (@Comment | @Ident)*, input %q: item %q has the token run [%s]", in, it.Comment+it.Word, render(it.Tokens))
					}
				}
				if fmt.Sprint(got) != fmt.Sprint(want) {
					res.violate("grammar (@Comment | @Ident)*, lookahead %d, input %q: items %q, the input holds %q", k, in, got, want)
				}
				// the root's run is the raw stream up to the last consumed token
				if len(want) > 0 {
					end := 0
					for i, tk := range raw {
						if tk.Pos.Offset == sig[len(sig)-1].Pos.Offset {
							end = i + 1
						}
					}
					if render(v.Tokens) != render(raw[:end]) {
						res.violate("grammar (@Comment | @Ident)*, input %q: the root's token run is [%s], the raw stream up to its last consumed token is [%s]", in, render(v.Tokens), render(raw[:end]))
					}
				}
			}()
			// ---- grammar 2: both kinds captured into one []lexer.Token field, then an optional single token ----
			res.Evaluations++
			func() {
				defer func() {
					if p := recover(); p != nil {
						res.violate("grammar ( @Ident | @Comment )* ( \";\" @Ident )?, lookahead %d, input %q: panic: %v", k, in, p)
					}
				}()
				v, err := pr.ParseString("", in)
				if err != nil {
					return
				}
				// whatever was stored, the node's own run must still be the raw stream (nothing the captures did may
				// disturb the lexer's tokens)
				if len(v.Tokens) > len(raw) || render(v.Tokens) != render(raw[:len(v.Tokens)]) {
					res.violate("grammar ( @Ident | @Comment )* ( \";\" @Ident )?, input %q: the node's token run is [%s], the raw stream is [%s]", in, render(v.Tokens), render(raw))
				}
				for _, tk := range v.Run {
					if n := names[tk.Type]; n != "Ident" && n != "Comment" {
						res.violate("grammar ( @Ident | @Comment )*, input %q: the captured run holds %q", in, tk.Value)
					}
				}
			}()
			// ---- grammar 3: one capture per token into a []lexer.Token field, in repeated statements ----
			res.Evaluations++
			func() {
				defer func() {
					if p := recover(); p != nil {
						res.violate("grammar ( ( @Ident )+ \";\" )*, lookahead %d, input %q: panic: %v", k, in, p)
					}
				}()
				v, err := pf.ParseString("", in)
				if err != nil {
					return
				}
				if len(v.Tokens) > len(raw) || render(v.Tokens) != render(raw[:len(v.Tokens)]) {
					res.violate("grammar ( ( @Ident )+ \";\" )*, input %q: the file's token run is [%s], the raw stream is [%s]", in, render(v.Tokens), render(raw))
				}
				for _, st := range v.Stmts {
					// each statement's run is a contiguous piece of the raw stream
					ok := false
					for i := range raw {
						if i+len(st.Tokens) <= len(raw) && render(raw[i:i+len(st.Tokens)]) == render(st.Tokens) {
							ok = true
						}
					}
					if !ok {
						res.violate("grammar ( ( @Ident )+ \";\" )*, input %q: a statement's token run [%s] is not a piece of the raw stream [%s]", in, render(st.Tokens), render(raw))
					}
				}
			}()
			if res.Evaluations%5003 == 2 && len(res.Samples) < 6 {
				res.Samples = append(res.Samples, fmt.Sprintf("%q", in))
			}
		}
	}
	res.emit(t)
}
