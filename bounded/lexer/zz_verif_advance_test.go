package lexer

import (
	"fmt"
	"strings"
	"testing"
	"unicode/utf8"
)

// TestVerif_C04C11_Advance: Position.Advance on its own (it is under contract; this stand-in covers what the string
// axioms abstract away, in particular text that is not valid UTF-8): the position after a span is the exact
// position of that offset in the text.
func TestVerif_C04C11C07_Advance(t *testing.T) {
	res := &verifResult{Check: "Position.Advance", Property: "C04 C11 C07", Exhaustive: true,
		Bound: "all texts of <= 5 (thorough: 6) pieces over {a, newline, é, \\xa3, \\x80, \\xff, tab} cut into a prefix and a span at every byte boundary that is a decode boundary of the text",
		Rule: "distinct (text, cut) pairs; non-trivial = the span holds a newline or a byte that is not ASCII"}
	alpha := []string{"a", "\n", "é", "\xa3", "\x80", "\xff", "\t"}
	maxLen := 5
	if verifThorough() {
		maxLen = 6
	}
	texts := []string{""}
	prev := []string{""}
	for l := 1; l <= maxLen; l++ {
		var next []string
		for _, p := range prev {
			for _, a := range alpha {
				next = append(next, p+a)
			}
		}
		texts = append(texts, next...)
		prev = next
	}
	exact := func(in string, off int) (int, int) {
		line := 1 + strings.Count(in[:off], "\n")
		ls := strings.LastIndex(in[:off], "\n") + 1
		return line, 1 + utf8.RuneCountInString(in[ls:off])
	}
	for _, in := range texts {
		// decode boundaries of the text
		bounds := map[int]bool{0: true}
		for i := 0; i < len(in); {
			_, n := utf8.DecodeRuneInString(in[i:])
			i += n
			bounds[i] = true
		}
		for cut := 0; cut <= len(in); cut++ {
			if !bounds[cut] {
				continue
			}
			for end := cut; end <= len(in); end++ {
				if !bounds[end] {
					continue
				}
				res.Evaluations++
				span := in[cut:end]
				if strings.ContainsAny(span, "\n") || !isASCII(span) {
					res.Distinct++
				}
				l0, c0 := exact(in, cut)
				p := Position{Filename: "f", Offset: cut, Line: l0, Column: c0}
				p.Advance(span)
				l1, c1 := exact(in, end)
				if p.Offset != end || p.Line != l1 || p.Column != c1 || p.Filename != "f" {
					res.violate("text %q: Advance(%q) from offset %d (%d:%d) gives offset %d at %d:%d, exact is %d at %d:%d", in, span, cut, l0, c0, p.Offset, p.Line, p.Column, end, l1, c1)
				}
			}
		}
	}
	res.sample(fmt.Sprintf("%d texts, e.g. %q", len(texts), texts[len(texts)-1]))
	res.emit(t)
}

func isASCII(s string) bool {
	for i := 0; i < len(s); i++ {
		if s[i] >= 0x80 {
			return false
		}
	}
	return true
}
