package lexer

import (
	"text/scanner"
	"fmt"
	"regexp"
	"strings"
	"sync"
	"testing"
	"unicode/utf8"
)

// specExpandBackrefs: the property's definition of a back-reference pattern: each \N (preceded by an odd
// number of backslashes) is replaced by the literal text of group N.
func specExpandBackrefs(input string, groups []string) (string, bool) {
	ok := true
	out := backrefReplace.ReplaceAllStringFunc(input, func(s string) string {
		m := backrefReplace.FindStringSubmatch(s)
		if len(m[1])%2 == 0 {
			return s // escaped backslashes followed by a digit: not a back-reference
		}
		n := int(m[2][0] - '0')
		if n >= len(groups) {
			ok = false
			return s
		}
		// the text of the group as one unit: a group of several characters (or none) needs the non-capturing
		// wrapper for that, a single character is a unit as it stands (and may then appear in a bracket expression)
		if utf8.RuneCountInString(groups[n]) == 1 {
			return m[1][:len(m[1])-1] + regexp.QuoteMeta(groups[n])
		}
		return m[1][:len(m[1])-1] + "(?:" + regexp.QuoteMeta(groups[n]) + ")"
	})
	return out, ok
}

// TestVerif_C03C09_BackrefCache: BackrefRegex returns the compilation of the expanded pattern whatever was
// asked of the same cache before (coherence of the one piece of shared mutable state of a definition).
func TestVerif_C03C09_BackrefCache(t *testing.T) {
	res := &verifResult{Check: "BackrefRegex cache", Property: "C03 C09", Exhaustive: true,
		Bound: "patterns {\\1, \\2, <\\1>\\2, \\\\1, a\\1+, \\0, \\0-\\1, \\1\\\\2, \\\\\\1, \\\\2\\1} (escaped backslashes before a digit are not back-references); two values of group 0; group lists of length 1-3 over {\"a\", \"b\", \"a\\x00b\", \"a\\x00\", \"\", \".\", \"(\"}; every ordered pair of calls on one shared cache",
		Rule: "ordered pairs of (pattern, groups) calls on one cache; non-trivial = both succeed and the two expansions differ"}
	patterns := []string{`\1`, `\2`, `<\1>\2`, `\\1`, `a\1+`, `\0`, `\0-\1`, `\1\\2`, `\\\1`, `\\2\1`}
	atoms := []string{"a", "b", "a\x00b", "a\x00", "", ".", "("}
	var groupLists [][]string
	for _, a := range atoms {
		groupLists = append(groupLists, []string{"whole", a})
		for _, b := range atoms {
			groupLists = append(groupLists, []string{"whole", a, b})
		}
	}
	groupLists = append(groupLists, []string{"whole"}, []string{"other"}, []string{"other", "a"}, []string{"other", "a", "b"})
	type call struct {
		pat    string
		groups []string
	}
	var calls []call
	for _, p := range patterns {
		for _, g := range groupLists {
			calls = append(calls, call{p, g})
		}
	}
	// reference results with a fresh cache
	fresh := make([]string, len(calls))
	for i, c := range calls {
		re, err := BackrefRegex(&sync.Map{}, c.pat, c.groups)
		exp, ok := specExpandBackrefs(c.pat, c.groups)
		if !ok {
			if err == nil {
				res.violate("BackrefRegex(%q, %q) succeeded although a group is missing", c.pat, c.groups)
			}
			fresh[i] = "ERR"
			continue
		}
		if err != nil {
			if _, cerr := regexp.Compile(exp); cerr == nil {
				res.violate("BackrefRegex(%q, %q) failed: %v", c.pat, c.groups, err)
			}
			fresh[i] = "ERR"
			continue
		}
		if re.String() != "^(?:"+exp+")" {
			res.violate("BackrefRegex(%q, %q) compiled %q, want ^(?:%s)", c.pat, c.groups, re.String(), exp)
		}
		fresh[i] = re.String()
	}
	step := 1
	if !verifThorough() {
		step = 3
	}
	for i := 0; i < len(calls); i += step {
		for j := range calls {
			res.Evaluations++
			cache := &sync.Map{}
			_, _ = BackrefRegex(cache, calls[i].pat, calls[i].groups)
			re, err := BackrefRegex(cache, calls[j].pat, calls[j].groups)
			got := "ERR"
			if err == nil {
				got = re.String()
			}
			if got != fresh[j] {
				res.violate("after BackrefRegex(%q, %q) on the same cache, BackrefRegex(%q, %q) gives %s; on a fresh cache it gives %s",
					calls[i].pat, calls[i].groups, calls[j].pat, calls[j].groups, got, fresh[j])
			}
			if fresh[i] != "ERR" && fresh[j] != "ERR" && fresh[i] != fresh[j] {
				res.Distinct++
			}
		}
	}
	res.sample(fmt.Sprintf("%q %q -> %s", calls[3].pat, calls[3].groups, fresh[3]))
	res.sample(fmt.Sprintf("%q %q -> %s", calls[40].pat, calls[40].groups, fresh[40]))
	res.emit(t)
}

// TestVerif_C04C18_StringAxioms: conformance of the trusted string axioms and stubs (lexer/contracts_verif.go,
// /verif/stubs/stdlib.spec) against the real strings / utf8 / regexp functions.
func TestVerif_C04C18C07_StringAxioms(t *testing.T) {
	res := &verifResult{Check: "string axioms and stubs", Property: "C04 C18 C07 C03", Exhaustive: true,
		Bound: "all strings of length <= 4 (quick) / 5 (thorough) over {a, \\n, \\xc3, \\xa9, \\xff}; regexp stub on 8 patterns x all such strings",
		Rule: "distinct (axiom, arguments) instances; non-trivial = arguments are non-empty"}
	alpha := []string{"a", "\n", "\xc3", "\xa9", "\xff"}
	maxLen := 4
	if verifThorough() {
		maxLen = 5
	}
	strs := []string{""}
	prev := []string{""}
	for l := 1; l <= maxLen; l++ {
		var next []string
		for _, p := range prev {
			for _, a := range alpha {
				next = append(next, p+a)
			}
		}
		strs = append(strs, next...)
		prev = next
	}
	nlc := func(s string) int { return strings.Count(s, "\n") }
	lastnl := func(s string) int { return strings.LastIndex(s, "\n") }
	rc := utf8.RuneCountInString
	// cutok(a, b): the split point is a rune boundary of a+b when decoding from the start
	cutok := func(a, b string) bool {
		s := a + b
		i := 0
		for i < len(a) {
			_, n := utf8.DecodeRuneInString(s[i:])
			i += n
		}
		return i == len(a)
	}
	short := strs
	if len(short) > 200 {
		short = strs[:156] // length <= 3
	}
	for _, s := range strs {
		res.Evaluations++
		if s != "" {
			res.Distinct++
		}
		// nlFacts
		if !(nlc(s) >= 0 && -1 <= lastnl(s) && lastnl(s) < len(s) && (lastnl(s) == -1) == (nlc(s) == 0)) {
			res.violate("nlFacts(%q)", s)
		}
		// rcAfterNL
		if j := lastnl(s); j >= 0 {
			if rc(s[j:]) != 1+rc(s[j+1:]) {
				res.violate("rcAfterNL(%q)", s)
			}
		}
		// stubs: RuneCountInString, Count, LastIndex ranges
		if n := rc(s); !(0 <= n && n <= len(s) && (len(s) == 0 || n > 0)) {
			res.violate("RuneCountInString stub (%q)", s)
		}
		if _, size := utf8.DecodeRuneInString(s); !(0 <= size && size <= len(s) && (len(s) == 0 || size >= 1)) {
			res.violate("DecodeRuneInString stub (%q)", s)
		}
		// subSplit for all i<=j<=k
		for i := 0; i <= len(s); i++ {
			for j := i; j <= len(s); j++ {
				for k := j; k <= len(s); k++ {
					if s[i:k] != s[i:j]+s[j:k] {
						res.violate("subSplit(%q,%d,%d,%d)", s, i, j, k)
					}
				}
			}
		}
	}
	for _, a := range short {
		for _, b := range short {
			res.Evaluations++
			if nlc(a+b) != nlc(a)+nlc(b) {
				res.violate("nlcCat(%q,%q)", a, b)
			}
			want := lastnl(a)
			if nlc(b) > 0 {
				want = len(a) + lastnl(b)
			}
			if lastnl(a+b) != want {
				res.violate("lastnlCat(%q,%q)", a, b)
			}
			if cutok(a, b) && rc(a+b) != rc(a)+rc(b) {
				res.violate("rcCat(%q,%q)", a, b)
			}
		}
	}
	if nlc("") != 0 || lastnl("") != -1 || rc("") != 0 {
		res.violate("emptyFacts")
	}
	// regexp stub: FindStringSubmatchIndex
	pats := []string{`^(?:a)`, `^(?:(a)?\n)`, `^(?:a*)`, `^(?:(a)|(\n))`, `^(?:\xc3\xa9)`, `^(?:.)`, `^(?:[^a]+)`, `^(?:(a)(\n)?)`}
	for _, p := range pats {
		re := regexp.MustCompile(p)
		for _, s := range strs {
			res.Evaluations++
			m := re.FindStringSubmatchIndex(s)
			if m == nil {
				continue
			}
			ok := len(m) >= 2 && len(m) == 2*(re.NumSubexp()+1) && m[0] == 0 && 0 <= m[0] && m[0] <= m[1] && m[1] <= len(s)
			for g := 1; g < len(m)/2 && ok; g++ {
				if !(m[2*g] == -1 && m[2*g+1] == -1) && !(m[0] <= m[2*g] && m[2*g] <= m[2*g+1] && m[2*g+1] <= m[1]) {
					ok = false
				}
			}
			if !ok {
				res.violate("FindStringSubmatchIndex stub: %q on %q gives %v", p, s, m)
			}
			// regexpSpanCut: a match of valid or invalid UTF-8 text ends on a decode boundary
			if !cutok(s[:m[1]], s[m[1]:]) {
				res.violate("regexpSpanCut: %q on %q matches %d bytes, which is not a rune boundary", p, s, m[1])
			}
		}
	}
	res.sample(fmt.Sprintf("%d strings, e.g. %q %q", len(strs), strs[7], strs[len(strs)-1]))
	res.emit(t)
}

// TestVerif_C04C06_TextScanner: the text/scanner-based default lexer: token values are the input bytes at their
// offsets, positions are exact, EOF sits at the end, and a lexing error is a *lexer.Error located inside the input
// with line and column consistent with its offset.
func TestVerif_C04C06C15_TextScanner(t *testing.T) {
	res := &verifResult{Check: "text/scanner lexer", Property: "C04 C06 C15", Exhaustive: true,
		Bound: "all inputs of length <= 4 (thorough: 5) over {a, 1, space, newline, \", ', `, /, *, \\xc3, \\xa9, \\xff, NUL, CR}, through LexString, LexBytes and Lex(reader); every input also lexed alternately with its rotation through the one default definition",
		Rule: "distinct inputs; non-trivial = more than one token or an error"}
	alpha := []string{"a", "1", " ", "\n", `"`, "'", "`", "/", "*", "\xc3", "\xa9", "\xff", "\x00", "\r"}
	maxLen := 4
	if verifThorough() {
		maxLen = 5
	}
	strs := []string{""}
	prev := []string{""}
	for l := 1; l <= maxLen; l++ {
		var next []string
		for _, p := range prev {
			for _, a := range alpha {
				next = append(next, p+a)
			}
		}
		strs = append(strs, next...)
		prev = next
	}
	oracle := func(in string, off int) (int, int) {
		line := 1 + strings.Count(in[:off], "\n")
		ls := strings.LastIndex(in[:off], "\n") + 1
		return line, 1 + utf8.RuneCountInString(in[ls:off])
	}
	run := func(lex Lexer, in string) (desc string, ntok int, failed bool) {
		var sb strings.Builder
		off := 0
		for i := 0; i <= len(in)+2; i++ {
			tok, err := lex.Next()
			if err != nil {
				le, ok := err.(*Error)
				if !ok {
					res.violate("input %q: lexing error %T is not a *lexer.Error", in, err)
					return sb.String(), ntok, true
				}
				fmt.Fprintf(&sb, "error@%d:%d:%d %s", le.Pos.Offset, le.Pos.Line, le.Pos.Column, le.Msg)
				if le.Pos.Offset < 0 || le.Pos.Offset > len(in) {
					res.violate("input %q: lexing error %q is located at offset %d, outside the input", in, le.Error(), le.Pos.Offset)
					return sb.String(), ntok, true
				}
				l, c := oracle(in, le.Pos.Offset)
				if le.Pos.Line != l || le.Pos.Column != c || le.Pos.Filename != "file" {
					res.violate("input %q: lexing error %q has position %s:%d:%d at offset %d, where line:column is %d:%d", in, le.Error(), le.Pos.Filename, le.Pos.Line, le.Pos.Column, le.Pos.Offset, l, c)
				}
				return sb.String(), ntok, true
			}
			fmt.Fprintf(&sb, "%d:%q@%d ", tok.Type, tok.Value, tok.Pos.Offset)
			if tok.EOF() {
				if tok.Pos.Offset != len(in) {
					res.violate("input %q: EOF token at offset %d, want %d", in, tok.Pos.Offset, len(in))
				} else if l, c := oracle(in, len(in)); tok.Pos.Line != l || tok.Pos.Column != c || tok.Pos.Filename != "file" {
					res.violate("input %q: EOF token has position %s:%d:%d, exact is file:%d:%d", in, tok.Pos.Filename, tok.Pos.Line, tok.Pos.Column, l, c)
				}
				return sb.String(), ntok, false
			}
			ntok++
			o := tok.Pos.Offset
			if o < off || o+len(tok.Value) > len(in) || in[o:o+len(tok.Value)] != tok.Value || tok.Value == "" {
				res.violate("input %q: token %q claims offset %d (previous token ended at %d)", in, tok.Value, o, off)
				return sb.String(), ntok, false
			}
			l, c := oracle(in, o)
			if tok.Pos.Line != l || tok.Pos.Column != c || tok.Pos.Filename != "file" {
				res.violate("input %q: token %q at offset %d has position %s:%d:%d, exact is file:%d:%d", in, tok.Value, o, tok.Pos.Filename, tok.Pos.Line, tok.Pos.Column, l, c)
			}
			off = o + len(tok.Value)
		}
		res.violate("input %q: no EOF within %d tokens", in, len(in)+3)
		return sb.String(), ntok, false
	}
	for _, in := range strs {
		res.Evaluations++
		func() {
			defer func() {
				if r := recover(); r != nil {
					res.violate("input %q: the text/scanner lexer panicked: %v", in, r)
				}
			}()
			a, n, failed := run(LexString("file", in), in)
			if n > 1 || failed {
				res.Distinct++
			}
			if b, _, _ := run(LexBytes("file", []byte(in)), in); b != a {
				res.violate("input %q: LexBytes gives %s, LexString gives %s", in, b, a)
			}
			if c, _, _ := run(Lex("file", strings.NewReader(in)), in); c != a {
				res.violate("input %q: Lex(reader) gives %s, LexString gives %s", in, c, a)
			}
			if l, err := TextScannerLexer.Lex("file", strings.NewReader(in)); err != nil {
				res.violate("input %q: TextScannerLexer.Lex: %v", in, err)
			} else if d, _, _ := run(l, in); d != a {
				res.violate("input %q: TextScannerLexer.Lex gives %s, LexString gives %s", in, d, a)
			}
			// a caller-supplied scanner that does not treat scan errors as fatal (LexWithScanner): still lossless
			{
				var sc scanner.Scanner
				sc.Init(strings.NewReader(in))
				sc.Error = func(*scanner.Scanner, string) {}
				lx := LexWithScanner("file", &sc)
				off := 0
				for i := 0; i <= len(in)+2; i++ {
					tok, err := lx.Next()
					if err != nil || tok.EOF() {
						break
					}
					o := tok.Pos.Offset
					if o < off || o+len(tok.Value) > len(in) || in[o:o+len(tok.Value)] != tok.Value {
						res.violate("input %q through LexWithScanner with a lenient scanner: token %q claims offset %d (previous token ended at %d)", in, tok.Value, o, off)
						break
					}
					off = o + len(tok.Value)
				}
			}
			// two lexers of the one default definition alive at once, stepped alternately: each sees its own input
			if len(in) >= 2 {
				other := in[1:] + in[:1]
				l1, e1 := TextScannerLexer.Lex("file", strings.NewReader(in))
				l2, e2 := TextScannerLexer.Lex("file", strings.NewReader(other))
				if e1 == nil && e2 == nil {
					var s1, s2 []string
					for i := 0; i <= len(in)+2; i++ {
						t1, x1 := l1.Next()
						t2, x2 := l2.Next()
						s1 = append(s1, fmt.Sprintf("%d:%q@%d/%v", t1.Type, t1.Value, t1.Pos.Offset, x1 != nil))
						s2 = append(s2, fmt.Sprintf("%d:%q@%d/%v", t2.Type, t2.Value, t2.Pos.Offset, x2 != nil))
						if (x1 != nil || t1.EOF()) && (x2 != nil || t2.EOF()) {
							break
						}
					}
					alone := func(text string, n int) []string {
						l := LexString("file", text)
						var out []string
						for i := 0; i < n; i++ {
							t, x := l.Next()
							out = append(out, fmt.Sprintf("%d:%q@%d/%v", t.Type, t.Value, t.Pos.Offset, x != nil))
						}
						return out
					}
					if fmt.Sprint(s1) != fmt.Sprint(alone(in, len(s1))) || fmt.Sprint(s2) != fmt.Sprint(alone(other, len(s2))) {
						res.violate("inputs %q and %q lexed alternately through one definition give %v and %v; alone they give %v and %v", in, other, s1, s2, alone(in, len(s1)), alone(other, len(s2)))
					}
				}
			}
			if res.Evaluations%2801 == 7 {
				res.sample(fmt.Sprintf("%q -> %s", in, a))
			}
		}()
	}
	res.emit(t)
}

// TestVerif_C03_BackrefLiteral: what a back-reference means (C03): it matches literally the text of the group that
// the entering rule captured, whatever bytes that text holds.
func TestVerif_C03_BackrefLiteral(t *testing.T) {
	res := &verifResult{Check: "BackrefRegex meaning", Property: "C03", Exhaustive: true,
		Bound: "the pattern \\1 against 11 group texts (plain, empty, metacharacters, NUL, non-ASCII, bytes that are not valid UTF-8)",
		Rule: "group texts; non-trivial = the text is not plain ASCII letters"}
	atoms := []string{"a", "b", "a\x00b", "a\x00", "", ".", "("}
	// what a back-reference means: it matches literally the text of the group, whatever bytes that text holds
	for _, g := range append(append([]string{}, atoms...), "\xff", "a\xffb", "é", "\xc3") {
		res.Evaluations++
		if g != "a" && g != "b" {
			res.Distinct++
		}
		re, err := BackrefRegex(&sync.Map{}, `\1`, []string{"whole", g})
		if err != nil {
			res.violate("BackrefRegex(`\\1`, group %q) fails: %v; a back-reference matches the text of the group literally", g, err)
			continue
		}
		if m := re.FindString(g + "zz"); m != g {
			res.violate("BackrefRegex(`\\1`, group %q) matches %q of %q; a back-reference matches the text of the group literally", g, m, g+"zz")
		}
	}
	// a quantifier after a back-reference applies to the whole text of the group
	for _, g := range []string{"ab", "a", "", "a.b", "é"} {
		res.Evaluations++
		res.Distinct++
		re, err := BackrefRegex(&sync.Map{}, `\1+;`, []string{"whole", g})
		if g == "" {
			continue // a repetition of nothing: whether it compiles is the regexp package's business
		}
		if err != nil {
			res.violate("BackrefRegex(`\\1+;`, group %q) fails: %v", g, err)
			continue
		}
		if m := re.FindString(g + g + g + ";x"); m != g+g+g+";" {
			res.violate("BackrefRegex(`\\1+;`, group %q) matches %q of %q; the repetition applies to the whole group text", g, m, g+g+g+";x")
		}
		if m := re.FindString(g + g[len(g)-1:] + ";"); len(g) > 1 && m != "" {
			res.violate("BackrefRegex(`\\1+;`, group %q) matches %q, a repetition of the last character only", g, m)
		}
	}
	// through the constructor: back-references that the regexp package would also accept as something else (\0 as
	// NUL, \12 as an octal escape) are back-references all the same
	for _, c := range []struct{ open, close, in, want string }{
		{`<(a)`, `\1>`, "<aa>", "Open:<a Close:a>"},
		{`<(a)`, `\0`, "<a<a", "Open:<a Close:<a"},
		{`<(a)`, `\12`, "<aa2", "Open:<a Close:a2"},
		{`<(a)(b)`, `\2\1\0`, "<abba<ab", "Open:<ab Close:ba<ab"},
	} {
		res.Evaluations++
		res.Distinct++
		def, err := New(Rules{"Root": {{"Open", c.open, Push("In")}}, "In": {{"Close", c.close, Pop()}}})
		if err != nil {
			res.violate("New with the closing rule %s: %v", c.close, err)
			continue
		}
		names := map[TokenType]string{}
		for n, ty := range def.Symbols() {
			names[ty] = n
		}
		l, _ := def.LexString("", c.in)
		var got []string
		for i := 0; i < 4; i++ {
			tok, err := l.Next()
			if err != nil {
				got = append(got, "error:"+err.Error())
				break
			}
			if tok.EOF() {
				break
			}
			got = append(got, names[tok.Type]+":"+tok.Value)
		}
		if strings.Join(got, " ") != c.want {
			res.violate("closing rule %s after %s on %q lexes to %q, want %q", c.close, c.open, c.in, strings.Join(got, " "), c.want)
		}
	}
	// a one-character group inside a bracket expression: the class of everything but that character
	if def, err := New(Rules{"Root": {{"Open", `(['"])`, Push("String")}}, "String": {{"Close", `\1`, Pop()}, {"Chars", `[^\1]+`, nil}}}); err != nil {
		res.violate("New with [^\\1]+: %v", err)
	} else {
		for in, want := range map[string]string{`'c"d'`: `' c"d '`, `"a(b"`: `" a(b "`, `'a:b?)'`: `' a:b?) '`, `""`: `" "`} {
			res.Evaluations++
			res.Distinct++
			l, _ := def.LexString("", in)
			var got []string
			for i := 0; i < 5; i++ {
				tok, err := l.Next()
				if err != nil {
					got = append(got, "error:"+err.Error())
					break
				}
				if tok.EOF() {
					break
				}
				got = append(got, tok.Value)
			}
			if strings.Join(got, " ") != want {
				res.violate("[^\\1]+ after (['\"]) on %q lexes to %q, want %q", in, strings.Join(got, " "), want)
			}
		}
	}
	res.emit(t)
}
