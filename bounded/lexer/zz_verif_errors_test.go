package lexer

import (
	"fmt"
	"strings"
	"testing"
	"unicode/utf8"
)

// TestVerif_C07C06_InvalidInput: the error path of StatefulLexer.Next (it formats a sample of the offending text, a
// piece of string slicing the contracts reach only as "no index out of range"): on input no rule matches, Next
// returns a located *lexer.Error naming the start of the offending text, for every way the text can straddle the
// sample's 16-character limit; and keeps returning it.
func TestVerif_C07C06_InvalidInput(t *testing.T) {
	res := &verifResult{Check: "invalid input error", Property: "C07 C06", Exhaustive: true,
		Bound: "2 definitions x (0-2 matching tokens, then 0 and 11-17 bytes of unmatched ASCII, then all tails of <= 3 (thorough: 4) pieces over {X, é, €, \\x80, \\xff, newline})",
		Rule: "distinct inputs; non-trivial = the unmatched text is longer than 16 bytes or ends inside a multi-byte character"}
	defs := map[string]Rules{
		"simple": {"Root": {{"A", `a+`, nil}, {"ws", ` +`, nil}}},
		"stack":  {"Root": {{"Open", `\(`, Push("In")}, {"A", `a+`, nil}}, "In": {{"Close", `\)`, Pop()}, {"B", `b+`, nil}}},
	}
	alpha := []string{"X", "é", "€", "\x80", "\xff", "\n"}
	maxTail := 3
	if verifThorough() {
		maxTail = 4
	}
	tails := []string{""}
	prev := []string{""}
	for l := 1; l <= maxTail; l++ {
		var next []string
		for _, p := range prev {
			for _, a := range alpha {
				next = append(next, p+a)
			}
		}
		tails = append(tails, next...)
		prev = next
	}
	for name, rules := range defs {
		def, err := New(rules)
		if err != nil {
			res.violate("New(%s): %v", name, err)
			continue
		}
		for _, head := range []string{"", "a", "aa a", "(b"} {
			if (name == "simple" && head == "(b") || (name == "stack" && head == "aa a") {
				continue
			}
			for _, pad := range []int{0, 11, 12, 13, 14, 15, 16, 17} {
				for _, tail := range tails {
					junk := strings.Repeat("X", pad) + tail
					if junk == "" {
						continue
					}
					in := head + junk
					res.Evaluations++
					if len(junk) > 16 || !utf8.ValidString(junk) {
						res.Distinct++
					}
					func() {
						defer func() {
							if p := recover(); p != nil {
								res.violate("definition %s, input %q: Next panicked: %v", name, in, p)
							}
						}()
						lex, _ := def.LexString("f", in)
						for i := 0; i < len(in)+2; i++ {
							tok, err := lex.Next()
							if err == nil {
								if tok.EOF() {
									res.violate("definition %s, input %q: lexing reached EOF although no rule matches %q", name, in, junk)
									return
								}
								continue
							}
							le, ok := err.(*Error)
							if !ok {
								res.violate("definition %s, input %q: error %T is not a *lexer.Error", name, in, err)
								return
							}
							if le.Pos.Offset != len(head) || le.Pos.Filename != "f" {
								res.violate("definition %s, input %q: error %q located at offset %d of %q, the first unmatched byte is at %d", name, in, le.Error(), le.Pos.Offset, le.Pos.Filename, len(head))
							}
							// the message quotes the start of the offending text
							r := []rune(junk)
							if len(r) > 4 {
								r = r[:4]
							}
							q := fmt.Sprintf("%q", string(r))
							if !strings.Contains(le.Msg, q[:len(q)-1]) {
								res.violate("definition %s, input %q: error message %q does not quote the start of the offending text %s", name, in, le.Msg, q)
							}
							// asking again gives the same answer
							if _, err2 := lex.Next(); err2 == nil || err2.Error() != err.Error() {
								res.violate("definition %s, input %q: Next after the error %q returns %v", name, in, err, err2)
							}
							return
						}
						res.violate("definition %s, input %q: neither EOF nor an error within %d calls", name, in, len(in)+2)
					}()
				}
			}
		}
	}
	res.sample(fmt.Sprintf("%d tails, e.g. %q", len(tails), tails[len(tails)-1]))
	res.emit(t)
}
