package lexer

import (
	"encoding/json"
	"fmt"
	"reflect"
	"regexp/syntax"
	"sort"
	"strings"
	"testing"
	"unicode"
	"unicode/utf8"
)

// ---- the enumerated family of rule maps ----

type vRule struct {
	name, pattern string
	action        string // "", "push:A", "push:B", "push:Z"(unknown), "pop", "include:A", "include:B", "include:Z", "return"
}

func (v vRule) rule() Rule {
	switch {
	case v.action == "return":
		return Return()
	case strings.HasPrefix(v.action, "include:"):
		return Include(v.action[8:])
	case strings.HasPrefix(v.action, "push:"):
		return Rule{v.name, v.pattern, Push(v.action[5:])}
	case v.action == "pop":
		return Rule{v.name, v.pattern, Pop()}
	}
	return Rule{v.name, v.pattern, nil}
}

// rule alphabet: plain rules with ordinary, lower-case, underscore/digit-initial names, patterns with
// metacharacters, an unbalanced pattern that would escape the ^(?:...) anchor, actions of every kind.
func vAlphabet(thorough bool) []vRule {
	a := []vRule{
		{"Ident", `[a-z]+`, ""},
		{"ws", `\s+`, ""},
		{"_Under", `_`, ""},
		{"Open", `\(`, "push:A"},
		{"Close", `\)`, "pop"},
		{"", "", "include:A"},
		{"", "", "return"},
		{"Esc", `a)|(?:b`, ""},
		{"End", `\b\1\b`, "pop"},
		{"é", `é`, ""},
		{"EOF", `;`, ""},
	}
	if thorough {
		a = append(a, vRule{"Q", `"[^"]*"|\\.<>&`, ""}, vRule{"2d", `\d`, ""}, vRule{"", "", "include:B"}, vRule{"PushB", `<`, "push:B"}, vRule{"PushZ", `z`, "push:Z"}, vRule{"", "", "include:Z"})
	}
	return a
}

func vEnumRuleLists(alpha []vRule, maxLen int) [][]vRule {
	out := [][]vRule{{}}
	prev := [][]vRule{{}}
	for l := 1; l <= maxLen; l++ {
		var next [][]vRule
		for _, p := range prev {
			for _, r := range alpha {
				n := append(append([]vRule{}, p...), r)
				next = append(next, n)
			}
		}
		out = append(out, next...)
		prev = next
	}
	return out
}

// includeCycle reports whether the include graph has a cycle (New loops forever on those; outside the
// property's "accepted" premise and excluded from the family).
func includeCycle(states map[string][]vRule) bool {
	var visit func(s string, stack map[string]bool) bool
	visit = func(s string, stack map[string]bool) bool {
		if stack[s] {
			return true
		}
		stack[s] = true
		defer delete(stack, s)
		for _, r := range states[s] {
			if strings.HasPrefix(r.action, "include:") {
				if _, ok := states[r.action[8:]]; ok && visit(r.action[8:], stack) {
					return true
				}
			}
		}
		return false
	}
	for s := range states {
		if visit(s, map[string]bool{}) {
			return true
		}
	}
	return false
}

// specExpand: the rules of state s with included states spliced in place (the property's definition).
func specExpand(states map[string][]vRule, s string) ([]vRule, error) {
	var out []vRule
	for _, r := range states[s] {
		if strings.HasPrefix(r.action, "include:") {
			inc := r.action[8:]
			if _, ok := states[inc]; !ok {
				return nil, fmt.Errorf("unknown include %s", inc)
			}
			sub, err := specExpand(states, inc)
			if err != nil {
				return nil, err
			}
			out = append(out, sub...)
			continue
		}
		out = append(out, r)
	}
	return out, nil
}

func specAccepts(states map[string][]vRule) bool {
	for s, rs := range states {
		_ = s
		for _, r := range rs {
			if strings.HasPrefix(r.action, "push:") {
				if _, ok := states[r.action[5:]]; !ok {
					return false
				}
			}
			if strings.HasPrefix(r.action, "include:") {
				if _, ok := states[r.action[8:]]; !ok {
					return false
				}
			}
			if r.action != "return" && !strings.HasPrefix(r.action, "include:") {
				if m := backrefReplace.FindStringSubmatch(r.pattern); m != nil && len(m[1])%2 == 1 {
					continue // back-reference patterns are compiled when the state is entered
				}
				if _, err := syntax.Parse(r.pattern, syntax.Perl); err != nil {
					return false // a pattern that is not a regular expression on its own must be rejected
				}
			}
		}
	}
	return true
}

// anchored: the compiled expression can only match at the start of the text: its syntax tree is a
// concatenation that begins with \A / ^ (BeginText).
func anchored(expr string) bool {
	re, err := syntax.Parse(expr, syntax.Perl)
	if err != nil {
		return false
	}
	re = re.Simplify()
	for re.Op == syntax.OpCapture {
		re = re.Sub[0]
	}
	if re.Op == syntax.OpBeginText {
		return true
	}
	return re.Op == syntax.OpConcat && len(re.Sub) > 0 && re.Sub[0].Op == syntax.OpBeginText
}

func vFamilies(thorough bool) []map[string][]vRule {
	alpha := vAlphabet(thorough)
	maxRoot, maxSub := 2, 3
	roots := vEnumRuleLists(alpha, maxRoot)
	// sub-states: up to three rules over a reduced alphabet (quick) / two over the full one plus three over the reduced one (thorough)
	reduced := []vRule{alpha[0], alpha[1], alpha[4], alpha[6]}
	subs := vEnumRuleLists(reduced, maxSub)
	if thorough {
		subs = append(subs, vEnumRuleLists(alpha, 2)...)
	}
	var out []map[string][]vRule
	// chains of includes (an included state that itself includes, with names sorting before and after the includer)
	id, ws, under, cl := alpha[0], alpha[1], alpha[2], alpha[4]
	inc := func(s string) vRule { return vRule{"", "", "include:" + s} }
	out = append(out,
		map[string][]vRule{"Root": {id, inc("Value")}, "Value": {inc("Ws"), cl}, "Ws": {ws}},
		map[string][]vRule{"Root": {inc("M")}, "M": {id, inc("Z")}, "Z": {ws, inc("ZZ")}, "ZZ": {under}},
		map[string][]vRule{"Root": {inc("B")}, "B": {inc("A")}, "A": {id}},
		map[string][]vRule{"Root": {id, {"Open", `\(`, "push:A"}}, "A": {cl, inc("Root")}},
		map[string][]vRule{"Root": {inc("A"), inc("B")}, "A": {id}, "B": {ws, inc("A")}},
		map[string][]vRule{"Root": {inc("Zb"), inc("Za")}, "Za": {inc("Zc"), ws}, "Zb": {id}, "Zc": {under, cl}},
		// state names that need escaping in JSON, and a user rule that happens to be called like the Return() sentinel
		map[string][]vRule{"Root": {id, {"Open", `\(`, "push:S\x7f\a\U000e0041"}}, "S\x7f\a\U000e0041": {cl, ws, inc("Root")}},
		map[string][]vRule{"Root": {{"returnToParent", `r+`, ""}, id, ws}},
		map[string][]vRule{"Root": {id, {"returnToParent", `\(`, "push:A"}}, "A": {cl, {"", "", "return"}}},
		// the back-reference rule of a pushed state arrives through an include; a named rule with the empty pattern
		map[string][]vRule{"Root": {{"Open", `<([a-z])>`, "push:Body"}, ws}, "Body": {inc("Term"), {"Text", `[a-z]`, ""}}, "Term": {{"End", `</\1>`, "pop"}}},
		map[string][]vRule{"Root": {id, {"Kw", "", ""}, ws}},
		// a pattern that itself spells one of the escapes encoding/json uses for <, > and &
		map[string][]vRule{"Root": {id, {"Esc", `\\u003c|<&>`, ""}, ws}},
		// names and patterns that begin or end with white space
		map[string][]vRule{"Root": {id, {"Sp", " +", ""}, {"Tab", "\t", ""}, {" Lead", "x ", ""}, {"Nb", "\u00a0", ""}}},
		// state names that look like action kinds, and the empty state name
		map[string][]vRule{"Root": {id, {"Open", `\(`, "push:pop"}}, "pop": {cl, ws}},
		map[string][]vRule{"Root": {id, inc("pop")}, "pop": {ws, {"Open", `\(`, "push:push"}}, "push": {cl, inc("include")}, "include": {under}},
		map[string][]vRule{"Root": {id, {"Open", `\(`, "push:"}}, "": {cl, ws}},
		map[string][]vRule{"Root": {id, inc("")}, "": {ws, {"Open", `\(`, "push:return"}}, "return": {cl, {"", "", "return"}}},
	)
	for _, r := range roots {
		if len(r) == 0 {
			continue
		}
		// Root alone, and with a state that has no rules (a legal target of push and include)
		out = append(out, map[string][]vRule{"Root": r}, map[string][]vRule{"Root": r, "A": {}})
		for _, a := range subs {
			if len(a) == 0 {
				continue
			}
			out = append(out, map[string][]vRule{"Root": r, "A": a})
			if thorough && len(r) <= 1 {
				for _, b := range subs {
					if len(b) == 0 || len(b) > 1 {
						continue
					}
					out = append(out, map[string][]vRule{"Root": r, "A": a, "B": b})
				}
			}
		}
	}
	return out
}

func toRules(states map[string][]vRule) Rules {
	rules := Rules{}
	for s, rs := range states {
		rules[s] = []Rule{}
		for _, r := range rs {
			rules[s] = append(rules[s], r.rule())
		}
	}
	return rules
}

func describe(states map[string][]vRule) string {
	keys := make([]string, 0, len(states))
	for k := range states {
		keys = append(keys, k)
	}
	sort.Strings(keys)
	var sb strings.Builder
	for _, k := range keys {
		fmt.Fprintf(&sb, "%s:[", k)
		for i, r := range states[k] {
			if i > 0 {
				sb.WriteString(" ")
			}
			fmt.Fprintf(&sb, "{%s %q %s}", r.name, r.pattern, r.action)
		}
		sb.WriteString("] ")
	}
	return strings.TrimSpace(sb.String())
}

func newNoPanic(rules Rules) (def *StatefulDefinition, err error, panicked interface{}) {
	defer func() { panicked = recover() }()
	def, err = New(rules)
	return
}

// TestVerif_C03C04C07_New: lexer.New builds exactly the table the rules define (C03), names that do not start
// with a lower-case letter are not dropped (C04), every compiled pattern is anchored so that Next may assume
// matches start at offset 0 (the rulesOK invariant Next's proof assumes: C03, C04, C07).
func TestVerif_C03C04C07_New(t *testing.T) {
	res := &verifResult{Check: "lexer.New", Property: "C03 C04 C07", Exhaustive: true,
		Bound: "all rule maps with states Root (1-2 rules over the full alphabet), optional A (0 rules, or 1-3 rules over {Ident, ws, Close/pop, return}; thorough: also 1-2 over the full alphabet, plus optional B with 1 rule) over the rule alphabet of vAlphabet (plain / lower-case / underscore-initial names, metacharacter and unbalanced patterns, push, pop, include, return; a non-ASCII lower-case name; a rule named EOF; thorough adds unknown targets and digit-initial names); plus 6 rule maps with chains of includes over 3-4 states and 3 with state names needing JSON escapes / a user rule named returnToParent and 4 with states named pop, push, include, return or the empty string, 1 with names and patterns that begin or end with white space; include cycles excluded",
		Rule: "distinct rule maps; non-trivial = accepted by New and containing an action, include or return"}
	seen := map[string]bool{}
	for _, states := range vFamilies(verifThorough()) {
		if includeCycle(states) {
			continue
		}
		d := describe(states)
		if seen[d] {
			continue
		}
		seen[d] = true
		res.Evaluations++
		def, err, p := newNoPanic(toRules(states))
		if p != nil {
			// the only documented panic: same name, different patterns
			if !strings.Contains(fmt.Sprint(p), "duplicate key") {
				res.violate("New panicked on %s: %v", d, p)
			}
			continue
		}
		want := specAccepts(states)
		if (err == nil) != want {
			res.violate("New(%s): err=%v, the rules are %svalid by the property's definition", d, err, map[bool]string{true: "", false: "in"}[want])
			continue
		}
		if err != nil {
			continue
		}
		nontrivial := false
		if def.matchLongest {
			res.violate("New(%s): matchLongest set", d)
		}
		if len(def.rules) != len(states) {
			res.violate("New(%s): %d compiled states, want %d", d, len(def.rules), len(states))
		}
		names := map[string]bool{}
		for s := range states {
			spec, _ := specExpand(states, s)
			got := def.rules[s]
			if len(got) != len(spec) {
				res.violate("New(%s): state %s has %d compiled rules, spec splice has %d", d, s, len(got), len(spec))
				continue
			}
			for i := range spec {
				sr := spec[i].rule()
				if got[i].Name != sr.Name || got[i].Pattern != sr.Pattern || !reflect.DeepEqual(got[i].Action, sr.Action) {
					res.violate("New(%s): state %s rule %d is %+v, spec splice has %+v", d, s, i, got[i].Rule, sr)
				}
				if sr.Action != nil || spec[i].action == "return" || len(spec) != len(states[s]) {
					nontrivial = true
				}
				first, _ := utf8.DecodeRuneInString(sr.Name)
				wantIgnore := sr.Name != "" && unicode.IsLower(first)
				if got[i].ignore != wantIgnore {
					res.violate("New(%s): rule %q ignore=%v, want %v (only names starting with a lower-case letter are dropped)", d, sr.Name, got[i].ignore, wantIgnore)
				}
				if m := backrefReplace.FindStringSubmatch(sr.Pattern); m != nil && len(m[1])%2 == 1 {
					if got[i].RE != nil {
						res.violate("New(%s): back-reference rule %q was compiled eagerly", d, sr.Name)
					}
				} else if spec[i].action != "return" {
					if got[i].RE == nil {
						res.violate("New(%s): rule %q has no compiled pattern", d, sr.Name)
					} else {
						if got[i].RE.String() != "^(?:"+sr.Pattern+")" {
							res.violate("New(%s): rule %q compiled to %q", d, sr.Name, got[i].RE.String())
						}
						if !anchored(got[i].RE.String()) {
							res.violate("New(%s): pattern %q of rule %q is not anchored at the start of the text: %q", d, sr.Pattern, sr.Name, got[i].RE.String())
						}
					}
				}
				names[sr.Name] = true
			}
		}
		// symbol table: EOF plus one distinct negative type per rule name
		syms := def.Symbols()
		if syms["EOF"] != EOF && !names["EOF"] {
			res.violate("New(%s): EOF symbol is %d", d, syms["EOF"])
		}
		byType := map[TokenType]string{}
		for n, ty := range syms {
			if other, dup := byType[ty]; dup {
				res.violate("New(%s): symbols %q and %q share type %d", d, n, other, ty)
			}
			byType[ty] = n
			if n != "EOF" && !names[n] {
				res.violate("New(%s): symbol %q names no rule", d, n)
			}
			if n != "EOF" && ty >= EOF {
				res.violate("New(%s): symbol %q has type %d", d, n, ty)
			}
		}
		for n := range names {
			if ty, ok := syms[n]; !ok {
				res.violate("New(%s): rule name %q has no symbol", d, n)
			} else if ty >= EOF {
				res.violate("New(%s): the tokens of rule %q get type %d; EOF (%d) and above are not a rule's", d, n, ty, EOF)
			}
		}
		if nontrivial {
			res.Distinct++
		}
		res.sample(d)
	}
	res.emit(t)
}

// lexAll runs a definition over an input and renders tokens and error.
func lexAll(def *StatefulDefinition, in string) (out string) {
	defer func() {
		if r := recover(); r != nil {
			out += fmt.Sprintf(" PANIC(%v)", r)
		}
	}()
	l, _ := def.LexString("f", in)
	for i := 0; i < 64; i++ {
		tok, err := l.Next()
		if err != nil {
			return out + " ERR(" + err.Error() + ")"
		}
		out += fmt.Sprintf(" %d:%q@%d", tok.Type, tok.Value, tok.Pos.Offset)
		if tok.EOF() {
			return out
		}
	}
	return out + " ..."
}

// TestVerif_C16_JSON: a definition (and its rule set) survives JSON: same symbols, same compiled table, same
// tokens and errors on a set of inputs.
func TestVerif_C16_JSON(t *testing.T) {
	res := &verifResult{Check: "lexer JSON round trip", Property: "C16", Exhaustive: true,
		Bound: "the rule maps of TestVerif_C03C04C07_New that New accepts; the caller's rule map is edited after New (a pattern changed, a rule prepended to every state, a state added) before the definition is marshalled; token streams compared on 16 inputs up to 7 bytes",
		Rule: "distinct accepted rule maps; non-trivial = contains an action, include or return"}
	inputs := []string{"", "a", "ab c", "(a)", "((a))b", ")", "a_b", "b", "xxb", "< a", "\"q\"", "é1", "rr a", "a (a) r", "a;b", "q w", "a  x \t", "x a", "<t>x</t>", "<t>x</u> ", "Kw", "1", "a \\u003c <&>"}
	seen := map[string]bool{}
	for _, states := range vFamilies(verifThorough()) {
		if includeCycle(states) {
			continue
		}
		d := describe(states)
		if seen[d] {
			continue
		}
		seen[d] = true
		rules := toRules(states)
		def, err, p := newNoPanic(rules)
		if p != nil || err != nil {
			continue
		}
		res.Evaluations++
		// (1) the rule set itself
		data, err := json.Marshal(rules)
		if err != nil {
			res.violate("Marshal(rules %s): %v", d, err)
			continue
		}
		var back Rules
		if err := json.Unmarshal(data, &back); err != nil {
			res.violate("Unmarshal(Marshal(rules %s)): %v", d, err)
			continue
		}
		if !reflect.DeepEqual(normRules(rules), normRules(back)) {
			res.violate("rule set %s changed by a JSON round trip: %s", d, data)
		}
		// (2) the definition; what the caller does with its rule map after New is none of the definition's business
		for st := range rules {
			if len(rules[st]) > 0 {
				rules[st][0].Pattern = "zzz"
			}
			rules[st] = append([]Rule{{"Early", "q", nil}}, rules[st]...)
		}
		rules["Added"] = []Rule{{"Late", "w", nil}}
		ddata, err := json.Marshal(def)
		if err != nil {
			res.violate("Marshal(def %s): %v", d, err)
			continue
		}
		var drules Rules
		if err := json.Unmarshal(ddata, &drules); err != nil {
			res.violate("Unmarshal(Marshal(def %s)): %v", d, err)
			continue
		}
		def2, err, p := newNoPanic(drules)
		if err != nil || p != nil {
			res.violate("New(Unmarshal(Marshal(def %s))) failed: %v %v", d, err, p)
			continue
		}
		if !reflect.DeepEqual(def.Symbols(), def2.Symbols()) {
			res.violate("definition %s: symbols changed by a JSON round trip: %v vs %v", d, def.Symbols(), def2.Symbols())
		}
		for _, in := range inputs {
			a, b := lexAll(def, in), lexAll(def2, in)
			if a != b {
				res.violate("definition %s: input %q lexes to%s before and%s after a JSON round trip", d, in, a, b)
			}
		}
		// (3) the rule set the definition hands out
		rdata, err := json.Marshal(def.Rules())
		var rrules Rules
		if err == nil {
			err = json.Unmarshal(rdata, &rrules)
		}
		if err != nil {
			res.violate("definition %s: Rules() does not survive JSON: %v", d, err)
		} else if def3, err, p := newNoPanic(rrules); err != nil || p != nil {
			res.violate("New(Unmarshal(Marshal(def.Rules()))) of %s failed: %v %v", d, err, p)
		} else {
			if !reflect.DeepEqual(def.Symbols(), def3.Symbols()) {
				res.violate("definition %s: symbols changed by a JSON round trip of Rules(): %v vs %v", d, def.Symbols(), def3.Symbols())
			}
			for _, in := range inputs {
				if a, b := lexAll(def, in), lexAll(def3, in); a != b {
					res.violate("definition %s: input %q lexes to%s before and%s after a JSON round trip of Rules()", d, in, a, b)
				}
			}
		}
		if strings.Contains(d, "push") || strings.Contains(d, "pop") || strings.Contains(d, "include") || strings.Contains(d, "return") {
			res.Distinct++
		}
		res.sample(d + " => " + string(data))
	}
	// decoding into a value that was used before takes nothing over from it
	res.Evaluations++
	reused := []Rule{{"A", "a", Pop()}, {"C", "c", Push("X")}}
	if err := json.Unmarshal([]byte(`[{"name":"B","pattern":"b"}]`), &reused); err != nil || len(reused) != 1 || reused[0].Action != nil || reused[0].Name != "B" {
		res.violate("a rule without an action decoded into a reused slice comes out as %+v (%v)", reused, err)
	}
	// ... whatever the value held before and whatever the rule lacks (name, pattern or action): every ordered pair
	pool := []Rule{{"A", "a", Pop()}, {"C", "c", Push("X")}, {"", "", nil}, ReturnRule, {"N", "", nil}, {"", "p", include{"S"}}}
	for _, prev := range pool {
		for _, next := range pool {
			res.Evaluations++
			data, err := json.Marshal(&next)
			if err != nil {
				res.violate("marshalling %+v: %v", next, err)
				continue
			}
			var fresh Rule
			used := prev
			e1, e2 := json.Unmarshal(data, &fresh), json.Unmarshal(data, &used)
			if (e1 == nil) != (e2 == nil) || !reflect.DeepEqual(fresh, used) {
				res.violate("%s decoded into a fresh rule gives %+v (%v), into one that held %+v gives %+v (%v)", data, fresh, e1, prev, used, e2)
			}
			if e1 == nil && !reflect.DeepEqual(fresh, next) {
				res.violate("%+v comes back from JSON as %+v", next, fresh)
			}
		}
	}
	res.emit(t)
}

func normRules(r Rules) map[string][]string {
	out := map[string][]string{}
	for s, rs := range r {
		for _, x := range rs {
			out[s] = append(out[s], fmt.Sprintf("%s|%s|%T%+v", x.Name, x.Pattern, x.Action, x.Action))
		}
	}
	return out
}
