package lexer

// Bounded stand-ins of the verification framework in /verif (injected with `go test -overlay`, never part
// of the repository). Each TestVerif* enumerates a stated finite family of inputs exhaustively, checks the
// runtime meaning of a contract that the VC generator cannot reach, and prints one line
//   VERIF-RESULT {json}
// that the driver (vcgo bounded) turns into evidence and VIOLATION lines.

import (
	"encoding/json"
	"fmt"
	"os"
	"sort"
	"testing"
)

type verifResult struct {
	Check       string   `json:"check"`
	Property    string   `json:"property"`
	Bound       string   `json:"bound"`
	Evaluations int      `json:"evaluations"`
	Distinct    int      `json:"distinct_nontrivial"`
	Rule        string   `json:"rule"`
	Samples     []string `json:"samples"`
	Violations  []string `json:"violations"`
	Exhaustive  bool     `json:"exhaustive"`
}

func (r *verifResult) violate(format string, args ...interface{}) {
	if len(r.Violations) < 50 {
		r.Violations = append(r.Violations, fmt.Sprintf(format, args...))
	}
}

func (r *verifResult) sample(s string) {
	if len(r.Samples) < 6 {
		r.Samples = append(r.Samples, s)
	}
}

func (r *verifResult) emit(t *testing.T) {
	sort.Strings(r.Violations)
	b, _ := json.Marshal(r)
	fmt.Printf("VERIF-RESULT %s\n", b)
	if len(r.Violations) > 0 {
		t.Errorf("%s: %d violations, first: %s", r.Check, len(r.Violations), r.Violations[0])
	}
}

func verifThorough() bool { return os.Getenv("VERIF_TIER") == "thorough" }
