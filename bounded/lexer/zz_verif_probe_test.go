package lexer

// Counterexample probes: when a proof obligation of a function fails, the driver runs the probe of that
// function. A probe enumerates a small scope of concrete inputs, runs the REAL function and checks the
// property's own statement with an independent oracle; the first failing inputs are reported as
//   VERIF-PROBE {json}
// so that a VIOLATION comes with an input that fails on the real code.

import (
	"encoding/json"
	"fmt"
	"regexp"
	"strings"
	"testing"
	"testing/iotest"
	"time"
	"unicode/utf8"
)

func regexpCompileAnchored(p string) (*regexp.Regexp, error) { return regexp.Compile("^(?:" + p + ")") }

type probeResult struct {
	Probe    string   `json:"probe"`
	Tried    int      `json:"tried"`
	Failures []string `json:"failures"`
}

func (p *probeResult) fail(format string, args ...interface{}) {
	if len(p.Failures) < 5 {
		p.Failures = append(p.Failures, fmt.Sprintf(format, args...))
	}
}
func (p *probeResult) emit() {
	b, _ := json.Marshal(p)
	fmt.Printf("VERIF-PROBE %s\n", b)
}

// ---- PeekingLexer (C12, C10) ----

type plState struct {
	types []TokenType // last is EOF
	elide map[TokenType]bool
	raw   int
}

func (s plState) String() string {
	var ts []string
	for _, t := range s.types {
		switch {
		case t == EOF:
			ts = append(ts, "EOF")
		case s.elide[t]:
			ts = append(ts, fmt.Sprintf("e%d", -t))
		default:
			ts = append(ts, fmt.Sprintf("t%d", -t))
		}
	}
	return fmt.Sprintf("tokens=[%s] raw=%d", strings.Join(ts, " "), s.raw)
}

// build constructs a PeekingLexer in the state the invariant prescribes for raw cursor s.raw.
func (s plState) build() *PeekingLexer {
	p := &PeekingLexer{elide: s.elide}
	for i, t := range s.types {
		p.tokens = append(p.tokens, Token{Type: t, Value: fmt.Sprintf("v%d", i), Pos: Position{Offset: i}})
	}
	p.rawCursor = RawCursor(s.raw)
	next := s.raw
	for p.tokens[next].Type != EOF && s.elide[p.tokens[next].Type] {
		next++
	}
	p.nextCursor = RawCursor(next)
	p.cursor = s.count(s.raw)
	return p
}

func (s plState) count(upto int) int {
	n := 0
	for i := 0; i < upto; i++ {
		if s.types[i] != EOF && !s.elide[s.types[i]] {
			n++
		}
	}
	return n
}

func (s plState) firstStop(from int) int {
	i := from
	for s.types[i] != EOF && s.elide[s.types[i]] {
		i++
	}
	return i
}

// checkInv checks the representation invariant and the observations the property names.
func (s plState) checkObs(p *PeekingLexer, what string, pr *probeResult) {
	raw := int(p.rawCursor)
	if raw < 0 || raw >= len(s.types) {
		pr.fail("%s: %s: raw cursor %d outside the stream", s, what, raw)
		return
	}
	if int(p.nextCursor) != s.firstStop(raw) {
		pr.fail("%s: %s: next cursor %d, want %d (first non-elided token at or after raw cursor %d)", s, what, p.nextCursor, s.firstStop(raw), raw)
	}
	if p.Cursor() != s.count(raw) {
		pr.fail("%s: %s: Cursor()=%d but %d non-elided tokens were consumed (raw cursor %d)", s, what, p.Cursor(), s.count(raw), raw)
	}
	if got, want := p.Peek(), &p.tokens[s.firstStop(raw)]; got != want {
		pr.fail("%s: %s: Peek() returns token %q, want %q", s, what, got.Value, want.Value)
	}
	if p.RawPeek() != &p.tokens[raw] {
		pr.fail("%s: %s: RawPeek() returns %q, want %q", s, what, p.RawPeek().Value, p.tokens[raw].Value)
	}
}

func safely(pr *probeResult, desc string, f func()) {
	done := make(chan struct{})
	go func() {
		defer close(done)
		defer func() {
			if r := recover(); r != nil {
				pr.fail("%s: panic: %v", desc, r)
			}
		}()
		f()
	}()
	select {
	case <-done:
	case <-time.After(3 * time.Second):
		pr.fail("%s: did not terminate within 3s", desc)
	}
}

func TestVerifProbe_PeekingLexer(t *testing.T) {
	pr := &probeResult{Probe: "PeekingLexer"}
	a, b, e1, e2 := TokenType(-2), TokenType(-3), TokenType(-4), TokenType(-5)
	elide := map[TokenType]bool{e1: true, e2: true}
	alpha := []TokenType{a, b, e1, e2}
	var streams [][]TokenType
	var gen func(prefix []TokenType, n int)
	gen = func(prefix []TokenType, n int) {
		streams = append(streams, append(append([]TokenType{}, prefix...), EOF))
		if n == 0 {
			return
		}
		for _, x := range alpha {
			gen(append(prefix, x), n-1)
		}
	}
	gen(nil, 4)
	matchers := map[string]func(Token) bool{
		"never": func(Token) bool { return false }, "always": func(Token) bool { return true },
		"isE1": func(t Token) bool { return t.Type == e1 }, "isA": func(t Token) bool { return t.Type == a },
	}
	for _, types := range streams {
		for raw := 0; raw < len(types); raw++ {
			s := plState{types: types, elide: elide, raw: raw}
			pr.Tried++
			// Next
			safely(pr, s.String()+" Next()", func() {
				p := s.build()
				want := &p.tokens[s.firstStop(raw)]
				got := p.Next()
				if got != want {
					pr.fail("%s: Next() returns %q, want %q", s, got.Value, want.Value)
				}
				after := s
				if want.Type != EOF {
					after.raw = s.firstStop(raw) + 1
				}
				if int(p.rawCursor) != after.raw {
					pr.fail("%s: after Next() the raw cursor is %d, want %d (just past the returned token)", s, p.rawCursor, after.raw)
				}
				after.raw = int(p.rawCursor)
				after.checkObs(p, "after Next()", pr)
			})
			// PeekAny + FastForward
			for name, m := range matchers {
				safely(pr, s.String()+" PeekAny("+name+")", func() {
					p := s.build()
					tok, rc := p.PeekAny(m)
					want := raw
					for types[want] != EOF && !m(p.tokens[want]) && elide[types[want]] {
						want++
					}
					if int(rc) != want || tok != p.tokens[want] {
						pr.fail("%s: PeekAny(%s) returns cursor %d (%q), want %d (first token that is EOF, matches or is not elided)", s, name, rc, tok.Value, want)
						return
					}
					if p.MakeCheckpoint() != s.build().Checkpoint {
						pr.fail("%s: PeekAny(%s) moved the lexer", s, name)
					}
					p.FastForward(rc)
					after := s
					if types[want] != EOF {
						after.raw = want + 1
					} else {
						after.raw = want
					}
					if int(p.rawCursor) != after.raw {
						pr.fail("%s: FastForward(%d) leaves the raw cursor at %d, want %d (through the returned token)", s, rc, p.rawCursor, after.raw)
					}
					after.raw = int(p.rawCursor)
					after.checkObs(p, fmt.Sprintf("after FastForward(%d)", rc), pr)
				})
			}
			// FastForward to arbitrary positions, checkpoints
			for _, rc := range []int{-3, -1, raw, len(types) - 1, len(types) + 2} {
				safely(pr, fmt.Sprintf("%s FastForward(%d)", s, rc), func() {
					p := s.build()
					cp := p.MakeCheckpoint()
					p.FastForward(RawCursor(rc))
					after := s
					after.raw = int(p.rawCursor)
					after.checkObs(p, fmt.Sprintf("after FastForward(%d)", rc), pr)
					p.LoadCheckpoint(cp)
					s.checkObs(p, "after LoadCheckpoint", pr)
				})
			}
		}
		// Upgrade
		safely(pr, fmt.Sprint(types)+" Upgrade", func() {
			var toks []Token
			for i, ty := range types {
				toks = append(toks, Token{Type: ty, Value: fmt.Sprintf("v%d", i)})
			}
			p, err := Upgrade(&sliceLexer{toks: toks}, e1, e2)
			if err != nil {
				pr.fail("Upgrade(%v): %v", types, err)
				return
			}
			plState{types: types, elide: elide, raw: 0}.checkObs(p, "after Upgrade", pr)
		})
	}
	pr.emit()
}

type sliceLexer struct {
	toks []Token
	i    int
}

func (s *sliceLexer) Next() (Token, error) {
	t := s.toks[s.i]
	if s.i < len(s.toks)-1 {
		s.i++
	}
	return t, nil
}

// ---- Position.Advance (C04) ----

func oraclePos(in string, off int) (line, col int) {
	line = 1 + strings.Count(in[:off], "\n")
	ls := strings.LastIndex(in[:off], "\n") + 1
	col = 1 + utf8.RuneCountInString(in[ls:off])
	return
}

func TestVerifProbe_Advance(t *testing.T) {
	pr := &probeResult{Probe: "Position.Advance"}
	alpha := []string{"a", "\n", "é", "日"}
	strs := []string{""}
	prev := []string{""}
	for l := 1; l <= 4; l++ {
		var next []string
		for _, p := range prev {
			for _, a := range alpha {
				next = append(next, p+a)
			}
		}
		strs = append(strs, next...)
		prev = next
	}
	for _, in := range strs {
		// every split into consumed prefix | span | rest at rune boundaries
		for i := 0; i <= len(in); i++ {
			if !utf8.RuneStart(append([]byte(in), 'a')[i]) {
				continue
			}
			for j := i; j <= len(in); j++ {
				if !utf8.RuneStart(append([]byte(in), 'a')[j]) {
					continue
				}
				pr.Tried++
				l0, c0 := oraclePos(in, i)
				p := Position{Filename: "f", Offset: i, Line: l0, Column: c0}
				safely(pr, fmt.Sprintf("Advance(%q) at offset %d of %q", in[i:j], i, in), func() { p.Advance(in[i:j]) })
				l1, c1 := oraclePos(in, j)
				if p.Offset != j || p.Line != l1 || p.Column != c1 || p.Filename != "f" {
					pr.fail("input %q: Position{Offset:%d Line:%d Column:%d}.Advance(%q) gives %d:%d (offset %d), the exact position is %d:%d (offset %d)", in, i, l0, c0, in[i:j], p.Line, p.Column, p.Offset, l1, c1, j)
				}
			}
		}
	}
	pr.emit()
}

// ---- StatefulLexer.Next (C07, C03, C04) ----

func minInt(a, b int) int {
	if a < b {
		return a
	}
	return b
}

// refLex is the property's own definition of the token stream, written independently of Next: at each offset
// the first rule of the current state (declared order, includes spliced) whose pattern matches the remaining
// input; Return pops to the parent at the same offset once no earlier rule matched; lower-case rules are dropped.
func refLex(rules Rules, in string) (out []string, errAt int) {
	type st struct {
		name   string
		groups []string
	}
	var expand func(s string, depth int) []Rule
	expand = func(s string, depth int) []Rule {
		var rs []Rule
		for _, r := range rules[s] {
			if inc, ok := r.Action.(include); ok && depth < 8 {
				rs = append(rs, expand(inc.State, depth+1)...)
				continue
			}
			rs = append(rs, r)
		}
		return rs
	}
	stack := []st{{name: "Root"}}
	off := 0
outer:
	for off < len(in) {
		top := stack[len(stack)-1]
		for _, r := range expand(top.name, 0) {
			if r == ReturnRule {
				if len(stack) <= 1 {
					return out, off
				}
				stack = stack[:len(stack)-1]
				continue outer
			}
			pat, ok := specExpandBackrefs(r.Pattern, top.groups)
			if !ok {
				return out, off
			}
			re, err := regexpCompileAnchored(pat)
			if err != nil {
				return out, off
			}
			m := re.FindStringSubmatchIndex(in[off:])
			if m == nil {
				continue
			}
			if m[1] == 0 {
				return out, off
			}
			groups := []string{}
			for g := 0; g < len(m); g += 2 {
				if m[g] < 0 {
					groups = append(groups, "")
				} else {
					groups = append(groups, in[off+m[g]:off+m[g+1]])
				}
			}
			switch a := r.Action.(type) {
			case ActionPush:
				stack = append(stack, st{a.State, groups})
			case ActionPop:
				if len(stack) <= 1 {
					return out, off
				}
				stack = stack[:len(stack)-1]
			}
			if !(len(r.Name) > 0 && r.Name[0] >= 'a' && r.Name[0] <= 'z') {
				out = append(out, fmt.Sprintf("%s:%q@%d", r.Name, in[off:off+m[1]], off))
			}
			off += m[1]
			continue outer
		}
		return out, off
	}
	return out, -1
}

func TestVerifProbe_StatefulNext(t *testing.T) {
	pr := &probeResult{Probe: "StatefulLexer.Next"}
	defs := map[string]Rules{
		"simple": {"Root": {{"Ident", `[a-z]+`, nil}, {"ws", `\s+`, nil}, {"Num", `\d+`, nil}}},
		"stack": {"Root": {{"Open", `\(`, Push("In")}, {"Ident", `[a-z]+`, nil}, {"ws", `\s+`, nil}, {"Close", `\)`, Pop()}},
			"In": {{"Close", `\)`, Pop()}, {"Word", `[a-z]+`, nil}, Include("Root")}},
		"return": {"Root": {{"Str", `"`, Push("Str")}, {"Ident", `[a-z]+`, nil}},
			"Str": {{"End", `"`, Pop()}, {"Expr", `\$`, Push("Expr")}, {"Char", `[^"$]+`, nil}},
			"Expr": {{"Id", `[a-z]+`, nil}, Return()}},
		"optgroup": {"Root": {{"A", `(a)?b`, Push("S")}, {"x", `x`, nil}}, "S": {{"B", `c`, Pop()}, Return()}},
		"backref": {"Root": {{"Open", `<(\w+)>`, Push("Body")}, {"ws", `\s+`, nil}}, "Body": {{"Close", `</\1>`, Pop()}, {"Text", `[^<]+`, nil}}},
		"empty":   {"Root": {{"Maybe", `a*`, nil}, {"B", `b`, nil}}},
		"rootret": {"Root": {{"A", `a`, nil}, Return()}},
		"emptyws": {"Root": {{"Ident", `[a-z]+`, nil}, {"ws", `\s*`, nil}, {"Plus", `\+`, nil}}},
		"emptypop": {"Root": {{"Open", `\(`, Push("In")}, {"Bang", `!`, nil}},
			"In": {{"Close", `\)?`, Pop()}, {"Word", `[a-z]+`, nil}}},
		// a chain of includes whose members sort after the including state
		"nestedinc": {"Root": {{"Open", `\(`, Push("Root")}, Include("Value"), {"Close", `\)`, Pop()}},
			"Value": {{"Ident", `[a-z]+`, nil}, Include("Ws"), {"Num", `\d+`, nil}},
			"Ws":    {{"ws", `\s+`, nil}, Include("Zz")},
			"Zz":    {{"Plus", `\+`, nil}}},
	}
	inputs := []string{"", "a", "ab c", "(a) b", "((a))", ")a", "a)", `"x$y"`, `"$`, "bc", "abc", "b", "xb", "<t>x</t>", "<t>x</u>", "a\nb\n\nc", "é a", "1 2", "ab", "$", "a+b", "(a!", "(a)!",
		"\ufeffab c", "\ufeff", "a \ufeff", "(a + 1)", "<a><b>x</b></a>", `"a$b$c" d`}
	// the token stream of one isolated LexString run
	stream := func(def *StatefulDefinition, lex Lexer, in string) string {
		var got []string
		for i := 0; i <= 2*len(in)+4; i++ {
			tok, err := lex.Next()
			if err != nil {
				got = append(got, "error: "+err.Error())
				break
			}
			got = append(got, fmt.Sprintf("%d:%q@%d:%d:%d", tok.Type, tok.Value, tok.Pos.Offset, tok.Pos.Line, tok.Pos.Column))
			if tok.EOF() {
				break
			}
		}
		return fmt.Sprint(got)
	}
	for name, rules := range defs {
		def, err := New(rules)
		if err != nil {
			pr.fail("New(%s): %v", name, err)
			continue
		}
		for _, in := range inputs {
			pr.Tried++
			safely(pr, fmt.Sprintf("definition %s, input %q (reference comparison)", name, in), func() {
				want, wantErr := refLex(rules, in)
				names := map[TokenType]string{}
				for n, ty := range def.Symbols() {
					names[ty] = n
				}
				lex, _ := def.LexString("file", in)
				var got []string
				gotErr := -1
				for i := 0; i <= 2*len(in)+4; i++ {
					tok, err := lex.Next()
					if err != nil {
						gotErr = -2
						if le, ok := err.(*Error); ok {
							gotErr = le.Pos.Offset
						}
						break
					}
					if tok.EOF() {
						break
					}
					got = append(got, fmt.Sprintf("%s:%q@%d", names[tok.Type], tok.Value, tok.Pos.Offset))
				}
				if fmt.Sprint(got) != fmt.Sprint(want) || gotErr != wantErr {
					pr.fail("definition %s, input %q: lexer gives %v (error offset %d), the rules define %v (error offset %d)", name, in, got, gotErr, want, wantErr)
				}
			})
			// entry points agree (C15) and concurrent lexers of one definition do not disturb each other (C09)
			safely(pr, fmt.Sprintf("definition %s, input %q (entry points)", name, in), func() {
				a, _ := def.LexString("file", in)
				want := stream(def, a, in)
				b, err := def.Lex("file", strings.NewReader(in))
				if err != nil {
					pr.fail("definition %s, input %q: Lex(reader) fails: %v", name, in, err)
					return
				}
				if got := stream(def, b, in); got != want {
					pr.fail("definition %s, input %q: Lex(reader) gives %s, LexString gives %s", name, in, got, want)
				}
				if c, err := def.Lex("file", iotest.DataErrReader(strings.NewReader(in))); err != nil {
					pr.fail("definition %s, input %q: Lex(reader returning data together with io.EOF) fails: %v", name, in, err)
				} else if got := stream(def, c, in); got != want {
					pr.fail("definition %s, input %q: Lex(reader returning data together with io.EOF) gives %s, LexString gives %s", name, in, got, want)
				}
				// two lexers of the same definition stepped alternately
				x, _ := def.LexString("file", in)
				y, _ := def.LexString("file", in)
				var gx, gy []string
				for i := 0; i <= 2*len(in)+4; i++ {
					tx, ex := x.Next()
					ty, ey := y.Next()
					gx = append(gx, fmt.Sprint(tx, ex))
					gy = append(gy, fmt.Sprint(ty, ey))
					if ex != nil || ey != nil || (tx.EOF() && ty.EOF()) {
						break
					}
				}
				if fmt.Sprint(gx) != fmt.Sprint(gy) {
					pr.fail("definition %s, input %q: two lexers of one definition stepped alternately disagree: %v vs %v", name, in, gx, gy)
				}
				z, _ := def.LexString("file", in)
				var gz []string
				for i := 0; i < len(gx); i++ {
					tz, ez := z.Next()
					gz = append(gz, fmt.Sprint(tz, ez))
				}
				if fmt.Sprint(gx) != fmt.Sprint(gz) {
					pr.fail("definition %s, input %q: a lexer stepped alternately with another of the same definition gives %v, alone it gives %v", name, in, gx, gz)
				}
			})
			safely(pr, fmt.Sprintf("definition %s, input %q", name, in), func() {
				lex, _ := def.LexString("file", in)
				off := 0
				sawEOF := false
				for i := 0; i <= 2*len(in)+4; i++ {
					tok, err := lex.Next()
					if err != nil {
						if _, ok := err.(*Error); !ok {
							pr.fail("definition %s, input %q: error %T is not a *lexer.Error", name, in, err)
						}
						return
					}
					if sawEOF {
						if !tok.EOF() || tok.Pos.Offset != len(in) {
							pr.fail("definition %s, input %q: after EOF, Next() returns %v at offset %d", name, in, tok, tok.Pos.Offset)
						}
						return
					}
					if tok.EOF() {
						if tok.Pos.Offset != len(in) {
							pr.fail("definition %s, input %q: EOF token at offset %d, want %d", name, in, tok.Pos.Offset, len(in))
						}
						sawEOF = true
						continue
					}
					if tok.Value == "" {
						pr.fail("definition %s, input %q: empty non-EOF token %v", name, in, tok)
						return
					}
					if tok.Pos.Offset < off || tok.Pos.Offset+len(tok.Value) > len(in) || in[tok.Pos.Offset:tok.Pos.Offset+len(tok.Value)] != tok.Value {
						pr.fail("definition %s, input %q: token %q claims offset %d, where the input reads %q", name, in, tok.Value, tok.Pos.Offset, in[minInt(tok.Pos.Offset, len(in)):])
						return
					}
					l, c := oraclePos(in, tok.Pos.Offset)
					if tok.Pos.Line != l || tok.Pos.Column != c || tok.Pos.Filename != "file" {
						pr.fail("definition %s, input %q: token %q at offset %d has position %s:%d:%d, exact is file:%d:%d", name, in, tok.Value, tok.Pos.Offset, tok.Pos.Filename, tok.Pos.Line, tok.Pos.Column, l, c)
					}
					off = tok.Pos.Offset + len(tok.Value)
				}
				pr.fail("definition %s, input %q: no EOF within %d calls of Next()", name, in, 2*len(in)+5)
			})
		}
	}
	pr.emit()
}
