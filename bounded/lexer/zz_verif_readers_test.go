package lexer

import (
	"bytes"
	"errors"
	"fmt"
	"io"
	"strings"
	"testing"
	"testing/iotest"
)

// chunkReader hands out at most n bytes per call and, when last is set, returns the final chunk together with io.EOF
// (both are allowed by the io.Reader contract).
type chunkReader struct {
	data []byte
	n    int
	last bool
}

func (c *chunkReader) Read(p []byte) (int, error) {
	if len(c.data) == 0 {
		return 0, io.EOF
	}
	n := c.n
	if n > len(c.data) {
		n = len(c.data)
	}
	if n > len(p) {
		n = len(p)
	}
	copy(p, c.data[:n])
	c.data = c.data[n:]
	if len(c.data) == 0 && c.last {
		return n, io.EOF
	}
	return n, nil
}

type failingReader struct {
	data []byte
	err  error
}

func (f *failingReader) Read(p []byte) (int, error) {
	if len(f.data) == 0 {
		return 0, f.err
	}
	n := copy(p, f.data)
	f.data = f.data[n:]
	return n, nil
}

// TestVerif_C04C15_Readers: Lex(filename, reader) lexes exactly the bytes the reader delivers, however it delivers
// them: the token stream equals that of LexString on the same text, and a read error is returned, not swallowed.
func TestVerif_C04C15C03_Readers(t *testing.T) {
	res := &verifResult{Check: "reader entry point", Property: "C04 C15 C03", Exhaustive: true,
		Bound: "3 stateful definitions x all inputs of length <= 4 (thorough: 5) over {a, space, (, ), newline, \\xc3\\xa9, \\xff} x 7 readers (strings.Reader, bytes.Buffer, one byte at a time, 2-byte chunks, data returned together with io.EOF, 3-byte chunks ending with data+EOF, half reads), plus a reader failing after the text, and seekable readers from which a header was read before",
		Rule: "distinct (definition, input, reader) triples; non-trivial = non-empty input and a reader other than strings.Reader"}
	defs := map[string]Rules{
		"simple": {"Root": {{"Ident", `[a-zé]+`, nil}, {"ws", `\s+`, nil}}},
		"stack": {"Root": {{"Open", `\(`, Push("In")}, {"Ident", `[a-zé]+`, nil}, {"ws", `\s+`, nil}},
			"In": {{"Close", `\)`, Pop()}, {"Word", `[a-zé]+`, nil}, {"ws", `\s+`, nil}}},
		"any": {"Root": {{"Any", `(?s).`, nil}}},
	}
	alpha := []string{"a", " ", "(", ")", "\n", "é", "\xff"}
	maxLen := 4
	if verifThorough() {
		maxLen = 5
	}
	strs := []string{""}
	prev := []string{""}
	for l := 1; l <= maxLen; l++ {
		var next []string
		for _, p := range prev {
			for _, a := range alpha {
				next = append(next, p+a)
			}
		}
		strs = append(strs, next...)
		prev = next
	}
	stream := func(lex Lexer, err error, in string) string {
		if err != nil {
			return "Lex error: " + err.Error()
		}
		var sb strings.Builder
		for i := 0; i <= 2*len(in)+4; i++ {
			tok, err := lex.Next()
			if err != nil {
				fmt.Fprintf(&sb, "error: %s", err)
				break
			}
			fmt.Fprintf(&sb, "%d:%q@%s ", tok.Type, tok.Value, tok.Pos)
			if tok.EOF() {
				break
			}
		}
		return sb.String()
	}
	readers := []struct {
		name string
		mk   func(string) io.Reader
	}{
		{"strings.Reader", func(s string) io.Reader { return strings.NewReader(s) }},
		{"bytes.Buffer", func(s string) io.Reader { return bytes.NewBufferString(s) }},
		{"one byte at a time", func(s string) io.Reader { return iotest.OneByteReader(strings.NewReader(s)) }},
		{"2-byte chunks", func(s string) io.Reader { return &chunkReader{data: []byte(s), n: 2} }},
		{"data together with io.EOF", func(s string) io.Reader { return iotest.DataErrReader(strings.NewReader(s)) }},
		{"3-byte chunks, last with io.EOF", func(s string) io.Reader { return &chunkReader{data: []byte(s), n: 3, last: true} }},
		{"half reads", func(s string) io.Reader { return iotest.HalfReader(strings.NewReader(s)) }},
	}
	boom := errors.New("boom")
	for name, rules := range defs {
		def, err := New(rules)
		if err != nil {
			res.violate("New(%s): %v", name, err)
			continue
		}
		for _, in := range strs {
			a, aerr := def.LexString("file", in)
			want := stream(a, aerr, in)
			for ri, r := range readers {
				res.Evaluations++
				if in != "" && ri > 0 {
					res.Distinct++
				}
				func() {
					defer func() {
						if p := recover(); p != nil {
							res.violate("definition %s, input %q, reader %s: panic: %v", name, in, r.name, p)
						}
					}()
					b, berr := def.Lex("file", r.mk(in))
					if got := stream(b, berr, in); got != want {
						res.violate("definition %s, input %q: Lex(%s) gives %s; LexString gives %s", name, in, r.name, got, want)
					}
				}()
			}
			// a reader the caller has already read a header from: what is lexed is what is left
			for _, hdr := range []string{"#!x\n", "é"} {
				for ri, mk := range []func(string) io.Reader{
					func(s string) io.Reader { r := strings.NewReader(s); _, _ = io.CopyN(io.Discard, r, int64(len(hdr))); return r },
					func(s string) io.Reader { r := bytes.NewReader([]byte(s)); _, _ = io.CopyN(io.Discard, r, int64(len(hdr))); return r },
				} {
					res.Evaluations++
					res.Distinct++
					b, berr := def.Lex("file", mk(hdr+in))
					if got := stream(b, berr, in); got != want {
						res.violate("definition %s, input %q after a %d-byte header already read from the reader (kind %d): Lex gives %s; the remaining text lexes to %s", name, in, len(hdr), ri, got, want)
					}
				}
			}
			res.Evaluations++
			if _, err := def.Lex("file", &failingReader{data: []byte(in), err: boom}); !errors.Is(err, boom) {
				res.violate("definition %s, input %q: the reader failed with %q after the text, Lex returned error %v", name, in, boom, err)
			}
		}
	}
	res.sample(fmt.Sprintf("%d inputs, e.g. %q", len(strs), strs[len(strs)-1]))
	res.emit(t)
}
