package lexer

import (
	"fmt"
	"testing"
)

// TestVerif_C12C10C11_LongStreams: the PeekingLexer through its public operations only, on long token streams (the
// probes of the deductive tier build the lexer from its fields and stop compiling when the representation changes).
// Bounded stand-in: runs of elided tokens that straddle positions 64 and 128, all-elided streams, token types around
// -64, compared with an explicit model of the property's clauses.
func TestVerif_C12C10C11_LongStreams(t *testing.T) {
	res := &verifResult{Check: "PeekingLexer on long streams", Property: "C12 C10 C11", Exhaustive: true,
		Bound: "streams of 70 / 134 tokens that are not elided except a run of 1-4 elided tokens starting 3 before to 1 after position 64 / 128; all-elided streams of 63-66, 100 and 130 tokens; elided token types -62 ... -66 and 1, 64; every raw position reached with FastForward; Peek, Next, PeekAny (3 predicates), Cursor, RawCursor, Range, checkpoints",
		Rule: "(stream, raw position) pairs; non-trivial = an elided token lies at or after the position"}
	type stream struct {
		types []TokenType
		elide map[TokenType]bool
	}
	var streams []stream
	plain, el := TokenType(-2), TokenType(-3)
	for _, b := range []int{64, 128} {
		for s := b - 3; s <= b+1; s++ {
			for l := 1; l <= 4; l++ {
				var ts []TokenType
				for i := 0; i < b+6; i++ {
					if i >= s && i < s+l {
						ts = append(ts, el)
					} else {
						ts = append(ts, plain)
					}
				}
				streams = append(streams, stream{append(ts, EOF), map[TokenType]bool{el: true}})
			}
		}
	}
	for _, n := range []int{63, 64, 65, 66, 100, 130} {
		var ts []TokenType
		for i := 0; i < n; i++ {
			ts = append(ts, el)
		}
		streams = append(streams, stream{append(ts, EOF), map[TokenType]bool{el: true}})
	}
	for _, e := range []TokenType{-62, -63, -64, -65, -66, 1, 64} {
		ts := []TokenType{plain, e, plain, e, e, plain}
		streams = append(streams, stream{append(ts, EOF), map[TokenType]bool{e: true}})
	}
	for _, st := range streams {
		var toks []Token
		for i, ty := range st.types {
			toks = append(toks, Token{Type: ty, Value: fmt.Sprintf("v%d", i), Pos: Position{Offset: i, Line: 1, Column: i + 1}})
		}
		var elide []TokenType
		for e := range st.elide {
			elide = append(elide, e)
		}
		n := len(st.types) - 1 // index of EOF
		firstStop := func(raw int) int {
			for raw < n && st.elide[st.types[raw]] {
				raw++
			}
			return raw
		}
		count := func(raw int) int {
			c := 0
			for i := 0; i < raw; i++ {
				if !st.elide[st.types[i]] {
					c++
				}
			}
			return c
		}
		desc := fmt.Sprintf("stream of %d tokens, elided type %v at %v", n, elide, elidedAt(st.types, st.elide))
		for raw := 0; raw <= n; raw++ {
			res.Evaluations++
			if firstStop(raw) != raw || raw < n && firstStop(raw+1) != raw+1 {
				res.Distinct++
			}
			func() {
				defer func() {
					if r := recover(); r != nil {
						res.violate("%s, raw position %d: panic: %v", desc, raw, r)
					}
				}()
				p, err := Upgrade(&longStreamLexer{toks: toks}, elide...)
				if err != nil {
					res.violate("%s: Upgrade: %v", desc, err)
					return
				}
				if raw > 0 {
					p.FastForward(RawCursor(raw - 1))
				}
				if int(p.RawCursor()) != raw || p.Cursor() != count(raw) {
					res.violate("%s: after FastForward(%d) the cursors are raw %d / %d, want %d / %d", desc, raw-1, p.RawCursor(), p.Cursor(), raw, count(raw))
					return
				}
				cp := p.MakeCheckpoint()
				if got := p.Peek(); *got != toks[firstStop(raw)] {
					res.violate("%s, raw position %d: Peek() returns %q, want %q", desc, raw, got.Value, toks[firstStop(raw)].Value)
				}
				for name, m := range map[string]func(Token) bool{"never": func(Token) bool { return false }, "elided": func(t Token) bool { return st.elide[t.Type] }, "v-last": func(t Token) bool { return t.Value == fmt.Sprintf("v%d", n-1) }} {
					want := raw
					for want < n && !m(toks[want]) && st.elide[st.types[want]] {
						want++
					}
					if tok, rc := p.PeekAny(m); int(rc) != want || tok != toks[want] {
						res.violate("%s, raw position %d: PeekAny(%s) returns %d (%q), want %d", desc, raw, name, rc, tok.Value, want)
					}
				}
				if p.MakeCheckpoint() != cp {
					res.violate("%s, raw position %d: Peek / PeekAny moved the lexer", desc, raw)
				}
				stop := firstStop(raw)
				if got := p.Next(); *got != toks[stop] {
					res.violate("%s, raw position %d: Next() returns %q, want %q", desc, raw, got.Value, toks[stop].Value)
				}
				after := stop + 1
				if stop == n {
					after = n
					if raw < n {
						after = int(p.RawCursor()) // moving up to EOF or staying: both leave every observation the same
					}
				}
				if int(p.RawCursor()) != after || p.Cursor() != count(after) {
					res.violate("%s, raw position %d: after Next() the cursors are raw %d / %d, want %d / %d", desc, raw, p.RawCursor(), p.Cursor(), after, count(after))
				}
				if got := p.Peek(); *got != toks[firstStop(after)] {
					res.violate("%s, raw position %d: Peek() after Next() returns %q, want %q", desc, raw, got.Value, toks[firstStop(after)].Value)
				}
				if r := p.Range(RawCursor(raw), RawCursor(after)); len(r) != after-raw || len(r) > 0 && (r[0] != toks[raw] || r[len(r)-1] != toks[after-1]) {
					res.violate("%s: Range(%d, %d) is not that piece of the stream", desc, raw, after)
				}
				p.LoadCheckpoint(cp)
				if int(p.RawCursor()) != raw || p.Cursor() != count(raw) || *p.Peek() != toks[firstStop(raw)] {
					res.violate("%s, raw position %d: LoadCheckpoint does not bring the lexer back", desc, raw)
				}
			}()
		}
		res.sample(desc)
	}
	res.emit(t)
}

func elidedAt(types []TokenType, elide map[TokenType]bool) string {
	first, last, k := -1, -1, 0
	for i, ty := range types {
		if elide[ty] {
			if first < 0 {
				first = i
			}
			last = i
			k++
		}
	}
	return fmt.Sprintf("%d positions in [%d, %d]", k, first, last)
}

type longStreamLexer struct {
	toks []Token
	i    int
}

func (s *longStreamLexer) Next() (Token, error) {
	t := s.toks[s.i]
	if s.i < len(s.toks)-1 {
		s.i++
	}
	return t, nil
}

// TestVerif_C15C12_UpgradeKeepsTokens: Upgrade stores the tokens of the lexer it is given as they are (C15: Parser.Lex,
// which goes through ConsumeAll, returns exactly the tokens a parse consumes, which go through Upgrade), also the odd
// ones a hand-written lexer may produce: an EOF token without a position, tokens without values, equal positions.
func TestVerif_C15C12_UpgradeKeepsTokens(t *testing.T) {
	res := &verifResult{Check: "Upgrade keeps the tokens", Property: "C15 C12", Exhaustive: true,
		Bound: "streams of 0-3 tokens over {positioned, position-less, empty-valued} x an EOF token with / without a position and with / without a value; with and without an elided type",
		Rule: "streams; non-trivial = some token lacks a position or a value"}
	kinds := []Token{
		{Type: -2, Value: "a", Pos: Position{Filename: "f", Offset: 3, Line: 1, Column: 4}},
		{Type: -3, Value: "b"},
		{Type: -2, Value: "", Pos: Position{Filename: "f", Offset: 7, Line: 2, Column: 1}},
	}
	eofs := []Token{{Type: EOF}, {Type: EOF, Pos: Position{Filename: "f", Offset: 9, Line: 2, Column: 3}}, {Type: EOF, Value: "$"}}
	var streams [][]Token
	var gen func(prefix []Token, n int)
	gen = func(prefix []Token, n int) {
		for _, e := range eofs {
			streams = append(streams, append(append([]Token{}, prefix...), e))
		}
		if n == 0 {
			return
		}
		for _, k := range kinds {
			gen(append(prefix[:len(prefix):len(prefix)], k), n-1)
		}
	}
	gen(nil, 3)
	for _, st := range streams {
		for _, elide := range [][]TokenType{nil, {-3}} {
			res.Evaluations++
			res.Distinct++
			all, err := ConsumeAll(&longStreamLexer{toks: st})
			p, err2 := Upgrade(&longStreamLexer{toks: st}, elide...)
			if err != nil || err2 != nil {
				res.violate("stream %v: ConsumeAll / Upgrade fail: %v %v", st, err, err2)
				continue
			}
			got := p.Range(0, RawCursor(len(st)))
			if fmt.Sprintf("%#v", got) != fmt.Sprintf("%#v", st) || fmt.Sprintf("%#v", all) != fmt.Sprintf("%#v", st) {
				res.violate("stream %#v: Upgrade holds %#v, ConsumeAll returns %#v", st, got, all)
			}
		}
	}
	res.sample(fmt.Sprintf("%#v", streams[5]))
	res.emit(t)
}

// TestVerif_C07C03_SimpleRulesWithBackslashDigit: a definition made by NewSimple whose pattern holds a backslash-digit
// escape (which New takes for a back-reference and does not compile) lexes to tokens or to an error, never to a panic.
func TestVerif_C07C03_SimpleRulesWithBackslashDigit(t *testing.T) {
	res := &verifResult{Check: "simple rules with a backslash-digit escape", Property: "C07 C03", Exhaustive: true,
		Bound: "NewSimple over 2-3 rules, one of them with \\1, \\0 or \\12 in its pattern, first / last; all inputs of <= 3 characters over {a, =, 1, \\n}",
		Rule: "(definition, input) pairs; non-trivial = the escaped rule is tried"}
	for _, pat := range []string{`=\1`, `\0`, `a\12`, `(=)\1`} {
		for _, first := range []bool{true, false} {
			rules := []SimpleRule{{Name: "A", Pattern: `a`}, {Name: "One", Pattern: `1`}}
			if first {
				rules = append([]SimpleRule{{Name: "B", Pattern: pat}}, rules...)
			} else {
				rules = append(rules, SimpleRule{Name: "B", Pattern: pat})
			}
			def, err := NewSimple(rules)
			if err != nil {
				continue // refusing the rule set is fine
			}
			var rec func(in string)
			rec = func(in string) {
				res.Evaluations++
				res.Distinct++
				func() {
					defer func() {
						if r := recover(); r != nil {
							res.violate("pattern %q (first: %v), input %q: panic: %v", pat, first, in, r)
						}
					}()
					l, err := def.LexString("", in)
					if err != nil {
						return
					}
					for i := 0; i <= len(in)+1; i++ {
						tok, err := l.Next()
						if err != nil || tok.EOF() {
							return
						}
						if tok.Value == "" {
							res.violate("pattern %q, input %q: empty token", pat, in)
							return
						}
					}
					res.violate("pattern %q, input %q: no EOF within %d tokens", pat, in, len(in)+2)
				}()
				if len(in) < 3 {
					for _, c := range []string{"a", "=", "1", "\n"} {
						rec(in + c)
					}
				}
			}
			rec("")
		}
	}
	res.emit(t)
}
