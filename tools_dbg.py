#!/usr/bin/env python3
"""Debug aid: skolemize the goal of a failing query, strip all other quantifiers, print a model of given terms."""
import sys,re,subprocess
f=sys.argv[1]; terms=sys.argv[2:]
src=open(f).read()
def strip_foralls(s):
    out=[];i=0
    while True:
        j=s.find('(forall',i)
        if j<0: out.append(s[i:]);break
        out.append(s[i:j]); d=0;k=j
        while True:
            if s[k]=='(': d+=1
            elif s[k]==')':
                d-=1
                if d==0: break
            k+=1
        out.append('true'); i=k+1
    return ''.join(out)
lines=src.split('\n')
gi=max(i for i,l in enumerate(lines) if l.startswith('(assert (not'))
g=lines[gi]
m=re.match(r'\(assert \(not \(forall \(\((\S+) Int\) \) (.*)\)\)\)$',g)
res=[]
for i,l in enumerate(lines):
    if i==gi and m:
        res.append('(declare-const SK Int)\n(assert (not %s))'%m.group(2).replace(m.group(1),'SK'))
    elif l.startswith('(assert (forall') and i<30:
        res.append(l)
    else:
        res.append(strip_foralls(l))
txt='\n'.join(res)
if terms:
    txt=txt.replace('(check-sat)','(check-sat)\n(get-value (%s))'%' '.join(terms))
open('/tmp/dbg.smt2','w').write(txt)
print(subprocess.run(['z3-new','-T:20','/tmp/dbg.smt2'],capture_output=True,text=True).stdout[:3000])
