#!/bin/bash
# usage: tools_mut.sh <name> <file> <sed-expr> [vcgo args...]  -- run vcgo on a mutated scratch copy
set -e
name=$1; file=$2; expr=$3; shift 3
d=/tmp/mut_$name
rm -rf $d; rsync -a --exclude .git /repo/ $d/
sed -i "$expr" $d/$file
(cd $d && diff -u /repo/$file $file | head -20) || true
/verif/bin/vcgo prove -repo $d "$@" | grep -E "FAILED|UNDECIDED|total" || true
rm -rf $d
