package main

import (
	"fmt"
	"go/types"
	"sort"
	"strings"

	"golang.org/x/tools/go/ssa"
)

// Frame scan for C09: after Build / New, nothing reachable from a shared Parser, lexer Definition or the
// package-level EBNF parser is written by the functions that run on behalf of Parse*, Lex*, String and the
// lexers' Next. Every store, map update and append in those functions gets the obligation "the target is not
// (reachable from) a shared object unless it was allocated in this function".

var sharedTypeNames = map[string]bool{
	"participle.parserOptions": true, "participle.Parser": true, "participle.strct": true, "participle.sequence": true,
	"participle.disjunction": true, "participle.group": true, "participle.capture": true, "participle.reference": true,
	"participle.literal": true, "participle.negation": true, "participle.lookaheadGroup": true, "participle.union": true,
	"participle.parseable": true, "participle.custom": true, "participle.unionDef": true, "participle.customDef": true,
	"participle.mapperByToken": true, "participle.mappingLexerDef": true, "participle.structLexerField": true,
	"lexer.StatefulDefinition": true, "lexer.compiledRule": true, "lexer.Rule": true, "lexer.ActionPush": true,
	"lexer.textScannerLexerDefinition": true, "ebnf.EBNF": false,
}

func sharedType(t types.Type) bool {
	for {
		switch u := t.(type) {
		case *types.Pointer:
			t = u.Elem()
			continue
		case *types.Slice:
			t = u.Elem()
			continue
		case *types.Named:
			if u.Obj().Pkg() == nil {
				return false
			}
			return sharedTypeNames[u.Obj().Pkg().Name()+"."+u.Obj().Name()]
		}
		return false
	}
}

type frameSite struct {
	Func, Pos, What, Verdict string
}

type frameResult struct {
	Functions  int
	Sites      []frameSite
	Violations []frameSite
	Roots      []string
}

// runtimeRoots: the functions that run when a built parser / definition is used.
func (eng *Engine) runtimeRoots() []*ssa.Function {
	var roots []*ssa.Function
	add := func(pkg, key string) {
		if f := eng.findFunc(pkg, key); f != nil {
			roots = append(roots, f)
		}
	}
	root := repoModule
	for _, k := range []string{"(*Parser[G]).Parse", "(*Parser[G]).ParseString", "(*Parser[G]).ParseBytes", "(*Parser[G]).ParseFromLexer",
		"(*Parser[G]).Lex", "(*Parser[G]).String", "(*Parser[G]).Lexer", "(*mappingLexerDef).Lex", "(*mappingLexerDef).Symbols", "(*mappingLexer).Next",
		"Unquote$1", "Upper$1", "unquote", "FormatError", "(*UnexpectedTokenError).Error", "(*ParseError).Error", "ParserForProduction"} {
		add(root, k)
	}
	for _, k := range []string{"(*StatefulDefinition).Lex", "(*StatefulDefinition).LexString", "(*StatefulDefinition).Symbols", "(*StatefulDefinition).Rules",
		"(*StatefulDefinition).MarshalJSON", "(*StatefulLexer).Next", "(*textScannerLexerDefinition).Lex", "(*textScannerLexerDefinition).Symbols",
		"(*textScannerLexer).Next", "Upgrade", "ConsumeAll"} {
		add(root+"/lexer", k)
	}
	for _, k := range []string{"ParseString", "Parse"} {
		add(root+"/ebnf", k)
	}
	// every node's Parse and every Action's applyAction (reached through interfaces)
	for _, p := range []string{root, root + "/lexer"} {
		sp := eng.spkgs[p]
		if sp == nil {
			continue
		}
		for _, m := range sp.Members {
			t, ok := m.(*ssa.Type)
			if !ok {
				continue
			}
			for _, T := range []types.Type{t.Type(), types.NewPointer(t.Type())} {
				ms := eng.prog.MethodSets.MethodSet(T)
				for i := 0; i < ms.Len(); i++ {
					n := ms.At(i).Obj().Name()
					if n == "Parse" || n == "applyAction" || n == "String" || n == "GoString" {
						if named, ok := t.Type().(*types.Named); ok && named.TypeParams().Len() > 0 {
							continue
						}
						if f := eng.prog.MethodValue(ms.At(i)); f != nil {
							roots = append(roots, f)
						}
					}
				}
			}
		}
	}
	return roots
}

func inRepoFn(f *ssa.Function) bool {
	for g := f; g != nil; g = g.Parent() {
		if g.Pkg != nil {
			return strings.HasPrefix(g.Pkg.Pkg.Path(), repoModule)
		}
		if o := g.Origin(); o != nil && o.Pkg != nil {
			return strings.HasPrefix(o.Pkg.Pkg.Path(), repoModule)
		}
	}
	return false
}

func (eng *Engine) FrameScan() *frameResult {
	res := &frameResult{}
	reach := map[*ssa.Function]bool{}
	var work []*ssa.Function
	for _, r := range eng.runtimeRoots() {
		if !reach[r] {
			reach[r] = true
			work = append(work, r)
			res.Roots = append(res.Roots, r.String())
		}
	}
	created := map[*ssa.Function]bool{} // closures created by runtime-reachable functions (per-call closures)
	for len(work) > 0 {
		f := work[len(work)-1]
		work = work[:len(work)-1]
		if len(f.Blocks) == 0 || !inRepoFn(f) {
			continue
		}
		for _, b := range f.Blocks {
			for _, in := range b.Instrs {
				var callee *ssa.Function
				switch t := in.(type) {
				case *ssa.Call:
					callee = t.Call.StaticCallee()
				case *ssa.Defer:
					callee = t.Call.StaticCallee()
				case *ssa.MakeClosure:
					if cf, ok := t.Fn.(*ssa.Function); ok {
						created[cf] = true
						callee = cf
					}
				}
				if callee != nil && !reach[callee] {
					reach[callee] = true
					work = append(work, callee)
				}
			}
		}
	}
	// the combined mapper closure built by Build runs at lexing time although Build itself does not
	if b := eng.findFunc(repoModule, "Build$1"); b != nil && !reach[b] {
		reach[b] = true
	}
	var fns []*ssa.Function
	for f := range reach {
		if inRepoFn(f) && len(f.Blocks) > 0 {
			fns = append(fns, f)
		}
	}
	sort.Slice(fns, func(i, j int) bool { return fns[i].String() < fns[j].String() })
	res.Functions = len(fns)
	for _, f := range fns {
		sharedClosure := f.Parent() != nil && !created[f] // created outside the runtime functions: its captures are shared
		prov := map[ssa.Value]string{}
		var cat func(v ssa.Value, depth int) string
		cat = func(v ssa.Value, depth int) string {
			if c, ok := prov[v]; ok {
				return c
			}
			if depth > 40 {
				return "percall"
			}
			prov[v] = "percall" // cycle guard
			r := "percall"
			switch t := v.(type) {
			case *ssa.Alloc, *ssa.MakeSlice, *ssa.MakeMap, *ssa.MakeInterface, *ssa.MakeClosure:
				r = "fresh"
			case *ssa.Global:
				r = "shared"
				if strings.HasPrefix(t.Name(), "init$") {
					r = "percall"
				}
			case *ssa.FreeVar:
				if sharedClosure {
					r = "shared"
				}
			case *ssa.Parameter:
				if sharedType(t.Type()) {
					r = "shared"
				}
			case *ssa.FieldAddr:
				r = cat(t.X, depth+1)
				if r != "fresh" && sharedType(t.X.Type()) {
					r = "shared"
				}
			case *ssa.Field:
				r = cat(t.X, depth+1)
			case *ssa.IndexAddr:
				r = cat(t.X, depth+1)
			case *ssa.Index:
				r = cat(t.X, depth+1)
			case *ssa.Slice:
				r = cat(t.X, depth+1)
			case *ssa.Lookup:
				r = cat(t.X, depth+1)
			case *ssa.Extract:
				r = cat(t.Tuple, depth+1)
			case *ssa.ChangeType:
				r = cat(t.X, depth+1)
			case *ssa.ChangeInterface:
				r = cat(t.X, depth+1)
			case *ssa.TypeAssert:
				r = cat(t.X, depth+1)
			case *ssa.UnOp:
				// a load: what is stored in a shared object is shared; what is stored in a fresh or per-call
				// object is per-call unless its own type says shared
				src := cat(t.X, depth+1)
				if src == "shared" {
					r = "shared"
				} else if sharedType(t.Type()) {
					r = "shared"
				}
			case *ssa.Phi:
				for _, e := range t.Edges {
					if c := cat(e, depth+1); c == "shared" {
						r = "shared"
					} else if c == "fresh" && r != "shared" {
						r = "fresh"
					}
				}
			case *ssa.Call:
				if b, ok := t.Call.Value.(*ssa.Builtin); ok && b.Name() == "append" {
					r = cat(t.Call.Args[0], depth+1)
					if r == "percall" {
						r = "percall"
					}
				} else if sharedType(t.Type()) {
					r = "shared"
				}
			}
			prov[v] = r
			return r
		}
		for _, b := range f.Blocks {
			for _, in := range b.Instrs {
				// package-level state that is mutable by design (sync.Pool, sync.Map, a map variable ...) and used while
				// parsing or lexing: results may then depend on earlier calls
				for _, op := range in.Operands(nil) {
					if g, ok := (*op).(*ssa.Global); ok && mutableGlobal(g) {
						site := frameSite{Func: f.String(), Pos: eng.fset.Position(in.Pos()).String(), What: "use of package-level mutable state " + g.Name() + " (" + g.Type().(*types.Pointer).Elem().String() + ")", Verdict: "shared"}
						site.Pos = strings.TrimPrefix(site.Pos, strings.TrimSuffix(eng.repo, "/")+"/")
						res.Sites = append(res.Sites, site)
						res.Violations = append(res.Violations, site)
					}
				}
				// a mutating method of a sync type (Map.Store, Pool.Get / Put, Mutex.Lock ...) called on an object that is
				// shared between calls: state that outlives the call, whatever it is used for. (The one such object the
				// library has, the back-reference cache, reaches its Store through a parameter of BackrefRegex; its
				// coherence is the subject of a bounded stand-in.)
				if call, ok := in.(*ssa.Call); ok {
					if callee := call.Call.StaticCallee(); callee != nil && callee.Signature.Recv() != nil && len(call.Call.Args) > 0 {
						rt := callee.Signature.Recv().Type()
						if pt, ok := rt.(*types.Pointer); ok {
							rt = pt.Elem()
						}
						if nt, ok := rt.(*types.Named); ok && nt.Obj().Pkg() != nil && (nt.Obj().Pkg().Path() == "sync" || nt.Obj().Pkg().Path() == "sync/atomic") {
							switch callee.Name() {
							case "Load", "Range", "RLock", "RUnlock", "Wait":
							default:
								if c := cat(call.Call.Args[0], 0); c == "shared" {
									site := frameSite{Func: f.String(), Pos: eng.fset.Position(in.Pos()).String(), What: "call of (" + nt.Obj().Pkg().Name() + "." + nt.Obj().Name() + ")." + callee.Name() + " on state shared between calls", Verdict: "shared"}
									site.Pos = strings.TrimPrefix(site.Pos, strings.TrimSuffix(eng.repo, "/")+"/")
									res.Sites = append(res.Sites, site)
									res.Violations = append(res.Violations, site)
								}
							}
						}
					}
				}
				var target ssa.Value
				what := ""
				switch t := in.(type) {
				case *ssa.Store:
					target, what = t.Addr, "store"
				case *ssa.MapUpdate:
					target, what = t.Map, "map update"
				case *ssa.Call:
					if bi, ok := t.Call.Value.(*ssa.Builtin); ok && (bi.Name() == "append" || bi.Name() == "copy" || bi.Name() == "delete") {
						target, what = t.Call.Args[0], bi.Name()
						if bi.Name() == "append" {
							// appending to a nil or fresh slice cannot write shared memory; appending in place to a shared one can
							if c, ok := t.Call.Args[0].(*ssa.Const); ok && c.Value == nil {
								continue
							}
						}
					}
				}
				if target == nil {
					continue
				}
				c := cat(target, 0)
				site := frameSite{Func: f.String(), Pos: eng.fset.Position(in.Pos()).String(), What: what + " to " + target.Type().String(), Verdict: c}
				site.Pos = strings.TrimPrefix(site.Pos, strings.TrimSuffix(eng.repo, "/")+"/")
				res.Sites = append(res.Sites, site)
				if c == "shared" {
					res.Violations = append(res.Violations, site)
				}
			}
		}
	}
	return res
}

// mutableGlobal: a package variable of the repository whose type exists to be mutated: anything from package sync
// (Pool, Map, Mutex, Once ...), sync/atomic, or a map. (Slices, pointers and interfaces held in package variables are
// read-only tables in this code base and are covered by the provenance of the writes themselves.)
func mutableGlobal(g *ssa.Global) bool {
	if g.Pkg == nil || !strings.HasPrefix(g.Pkg.Pkg.Path(), repoModule) {
		return false
	}
	var mutable func(t types.Type, depth int) bool
	mutable = func(t types.Type, depth int) bool {
		if depth > 4 {
			return false
		}
		switch u := t.(type) {
		case *types.Named:
			if pk := u.Obj().Pkg(); pk != nil && (pk.Path() == "sync" || pk.Path() == "sync/atomic") {
				return true
			}
			return mutable(u.Underlying(), depth+1)
		case *types.Pointer:
			return mutable(u.Elem(), depth+1)
		case *types.Map:
			return true
		case *types.Struct:
			for i := 0; i < u.NumFields(); i++ {
				if mutable(u.Field(i).Type(), depth+1) {
					return true
				}
			}
		}
		return false
	}
	return mutable(g.Type().(*types.Pointer).Elem(), 0)
}

func (s frameSite) String() string {
	return fmt.Sprintf("%s: %s in %s", s.Pos, s.What, s.Func)
}
