package main

import (
	"sync"
	"encoding/json"
	"flag"
	"fmt"
	"os"
	"os/exec"
	"path/filepath"
	"sort"
	"strconv"
	"strings"
	"time"
)

type KnownFinding struct {
	Property   string `json:"property"`
	Obligation string `json:"obligation"`
	What       string `json:"what"`
	Status     string `json:"status"` // "open" or "fixed:<commit>"
	Trigger    string `json:"trigger,omitempty"`
}

type knownFile struct {
	Findings []KnownFinding `json:"findings"`
	Fixed    []string       `json:"fixed,omitempty"`
}

func loadKnown(path string) []KnownFinding {
	b, err := os.ReadFile(path)
	if err != nil {
		return nil
	}
	var kf knownFile
	if err := json.Unmarshal(b, &kf); err != nil {
		fmt.Fprintln(os.Stderr, "known_findings.json:", err)
		return nil
	}
	return kf.Findings
}

// obligationBase strips the ordinal-independent part used to match known findings:
// findings are keyed by the full obligation name.
func matchKnown(kfs []KnownFinding, prop, obl string) *KnownFinding {
	for i := range kfs {
		k := &kfs[i]
		if k.Status != "open" {
			continue
		}
		if k.Property != prop && k.Property != "*" {
			continue
		}
		if k.Obligation == obl {
			return k
		}
	}
	return nil
}

// matchKnownBounded: a known finding of a bounded stand-in is identified by the check name and a trigger
// substring of the violation text (the specific input that fails).
func matchKnownBounded(kfs []KnownFinding, prop, check, violation string) *KnownFinding {
	for i := range kfs {
		k := &kfs[i]
		if k.Status != "open" || (k.Property != prop && k.Property != "*") {
			continue
		}
		if k.Obligation == "bounded:"+check && k.Trigger != "" && strings.Contains(violation, k.Trigger) {
			return k
		}
	}
	return nil
}

type sampleObl struct {
	Name   string `json:"name"`
	Kind   string `json:"kind"`
	Pos    string `json:"pos,omitempty"`
	Clause string `json:"clause,omitempty"`
	Solver string `json:"solver"`
	Millis int64  `json:"ms"`
	SMT    int    `json:"smt_bytes"`
}

type proofPart struct {
	Functions   []string            `json:"functions_under_contract"`
	Lemmas      []string            `json:"lemmas"`
	Obligations int                 `json:"obligations"`
	Discharged  int                 `json:"discharged"`
	ByBackend   map[string]int      `json:"discharged_by_backend"`
	ByKind      map[string]int      `json:"obligations_by_kind"`
	SolverMs    int64               `json:"solver_ms_total"`
	Undecided   []string            `json:"undecided"`
	Failed      []map[string]string `json:"failed"`
	Known       []string            `json:"known_findings"`
	Trusted     []string            `json:"trusted_base"`
	Notes       []string            `json:"notes"`
	Samples     []sampleObl         `json:"samples"`
	PathCovers  int                 `json:"return_path_covers"`
	DeadReturns []string            `json:"return_paths_unreachable_under_contract"`
	Violations  int                 `json:"violations"`
}

// standing assumptions of the semantics (DESIGN section 3.4)
var idealisations = []string{
	"integers are mathematical (no wrap-around) except where a function is marked check-overflow",
	"append is functional: fresh backing array, in-place growth aliasing not modelled",
	"pointer parameters point to the start of an allocation of their element type; proofs are parametric in the object",
	"package-level variables hold their initial values (no stores outside init)",
	"recover blocks are ignored",
	"spec rec functions are assumed well-founded (fuel-1 unfolding of ground applications)",
	"the VC generator itself (go/ssa semantics as implemented in /verif/engine) and the SMT solvers are trusted",
}

// runProof generates and discharges all obligations tagged with prop.
func runProof(eng *Engine, prop string, tier string, kfs []KnownFinding, replayDir string) (*proofPart, []string) {
	quickSec, raceSec := 8, 40
	if tier == "thorough" {
		quickSec, raceSec = 15, 90
	}
	pp := &proofPart{ByBackend: map[string]int{}, ByKind: map[string]int{}}
	var lines []string
	var results []*FuncResult
	clauseHas := func(fs *FuncSpec) bool {
		if hasTag(fs.FrameTags, prop) {
			return true
		}
		for _, c := range fs.Requires {
			if hasTag(c.Tags, prop) {
				return true
			}
		}
		for _, c := range fs.Ensures {
			if hasTag(c.Tags, prop) {
				return true
			}
		}
		for _, a := range fs.Asserts {
			if hasTag(a.Tags, prop) {
				return true
			}
		}
		for _, l := range fs.Loops {
			for _, c := range l.Invariants {
				if hasTag(c.Tags, prop) {
					return true
				}
			}
		}
		return false
	}
	for _, name := range sortedKeys(eng.spec.Lemmas) {
		lm := eng.spec.Lemmas[name]
		if !hasTag(lm.Tags, prop) || lm.Trusted {
			continue
		}
		results = append(results, eng.VerifyLemma(name))
		pp.Lemmas = append(pp.Lemmas, name)
	}
	for _, key := range eng.spec.Order {
		fs := eng.spec.Funcs[key]
		if fs.Trusted || strings.HasPrefix(fs.Key, "iface:") || fs.Inline {
			continue
		}
		if !hasTag(fs.Tags, prop) && !clauseHas(fs) {
			continue
		}
		results = append(results, eng.VerifyFunc(key))
		pp.Functions = append(pp.Functions, fs.Key)
	}
	var all []*Obligation
	trusted := map[string]bool{}
	notes := map[string]bool{}
	for _, r := range results {
		if r.Undecided != "" {
			// The contract no longer binds to the code (renamed variable, construct outside the subset): nothing is
			// proved about this function. That alone is not a violation; it becomes one only if a probe of the real
			// code observes a failing input for this function.
			fn := r.Name
			if i := strings.LastIndex(fn, "::"); i >= 0 {
				fn = fn[i+2:]
			}
			o := &Obligation{Name: fn + "/contract-binds", Kind: "undecided", Func: fn, Tags: []string{prop},
				Src: "the contract of " + fn + " applies to the current code", Output: "undecided: " + r.Undecided, Status: "undecided"}
			if ce := findCounterexample(eng, o, ""); ce != nil && ce.Confirmed {
				if k := matchKnown(kfs, prop, o.Name); k != nil {
					pp.Known = append(pp.Known, o.Name)
					lines = append(lines, fmt.Sprintf("KNOWN-FINDING: property=%s %s [%s]", prop, k.What, o.Name))
					continue
				}
				pp.Obligations++
				pp.Violations++
				pp.Failed = append(pp.Failed, map[string]string{"name": o.Name, "pos": "", "clause": o.Src, "solver_output": o.Output})
				lines = append(lines, writeReplay(eng, replayDir, prop, o, ""))
				continue
			}
			pp.Undecided = append(pp.Undecided, r.Name+": "+r.Undecided)
			lines = append(lines, fmt.Sprintf("UNDECIDED property=%s function=%s reason=%s", prop, r.Name, r.Undecided))
			continue
		}
		for _, o := range r.Obls {
			if hasTag(o.Tags, prop) {
				all = append(all, o)
			}
		}
		for _, a := range r.Assumed {
			trusted[a] = true
		}
		for _, n := range r.Notes {
			notes[n] = true
		}
	}
	dir, _ := os.MkdirTemp("", "vcgo-"+prop)
	defer os.RemoveAll(dir)
	solveAll(all, dir, quickSec, raceSec, 8)
	// informational reachability covers of every return path (thorough tier)
	if tier == "thorough" {
		var covers []*Obligation
		for _, r := range results {
			covers = append(covers, r.PathCovers...)
		}
		solveAll(covers, dir, quickSec, raceSec, 8)
		for _, o := range covers {
			pp.PathCovers++
			if o.Status != "discharged" {
				pp.DeadReturns = append(pp.DeadReturns, o.Name)
			}
		}
	}
	for _, o := range all {
		pp.ByKind[o.Kind]++
		pp.SolverMs += o.Millis
		if o.Status == "discharged" {
			pp.Obligations++
			pp.Discharged++
			pp.ByBackend[o.Solver]++
			continue
		}
		if k := matchKnown(kfs, prop, o.Name); k != nil {
			pp.Known = append(pp.Known, o.Name)
			lines = append(lines, fmt.Sprintf("KNOWN-FINDING: property=%s %s [%s]", prop, k.What, o.Name))
			continue
		}
		pp.Obligations++
		pp.Violations++
		pp.Failed = append(pp.Failed, map[string]string{"name": o.Name, "pos": o.Pos, "clause": o.Src, "solver_output": o.Output})
		rp := writeReplay(eng, replayDir, prop, o, dir)
		lines = append(lines, rp)
	}
	// samples: a spread of obligations
	step := len(all)/8 + 1
	for i := 0; i < len(all); i += step {
		o := all[i]
		pp.Samples = append(pp.Samples, sampleObl{Name: o.Name, Kind: o.Kind, Pos: o.Pos, Clause: o.Src, Solver: o.Solver, Millis: o.Millis, SMT: o.SMTSize})
	}
	pp.Trusted = sortedKeys(trusted)
	pp.Notes = sortedKeys(notes)
	sort.Strings(pp.Functions)
	return pp, lines
}

type replayFile struct {
	Property   string `json:"property"`
	Obligation string `json:"obligation"`
	Kind       string `json:"kind"`
	Function   string `json:"function"`
	Pos        string `json:"pos"`
	Clause     string `json:"clause"`
	Solver     string `json:"solver_output"`
	Replayed   bool   `json:"replayed_on_real_code"`
	Input      any    `json:"failing_input,omitempty"`
	Outcome    string `json:"real_code_outcome,omitempty"`
	HowTo      string `json:"how_to_replay"`
}

// writeReplay tries to find a concrete failing input for a failed obligation and writes the replay file.
func writeReplay(eng *Engine, replayDir, prop string, o *Obligation, smtDir string) string {
	os.MkdirAll(replayDir, 0o755)
	path := filepath.Join(replayDir, prop+"_"+sanitize(o.Name)+".json")
	rf := replayFile{Property: prop, Obligation: o.Name, Kind: o.Kind, Function: o.Func, Pos: o.Pos, Clause: o.Src, Solver: o.Output,
		HowTo: "cd /verif && ./check replay " + path}
	found := false
	if ce := findCounterexample(eng, o, smtDir); ce != nil {
		rf.Input = ce.Input
		rf.Outcome = ce.Outcome
		rf.Replayed = ce.Confirmed
		found = ce.Confirmed
	}
	b, _ := json.MarshalIndent(rf, "", "  ")
	os.WriteFile(path, b, 0o644)
	line := fmt.Sprintf("VIOLATION property=%s replay=%s obligation=%s", prop, path, o.Name)
	if !found {
		line += " no-failing-input-found"
	}
	return line
}

func writeEvidence(path string, ev map[string]any) {
	os.MkdirAll(filepath.Dir(path), 0o755)
	b, _ := json.MarshalIndent(ev, "", " ")
	os.WriteFile(path, b, 0o644)
}

func seedFromEnv() int {
	if s := os.Getenv("VERIF_SEED"); s != "" {
		if n, err := strconv.Atoi(s); err == nil {
			return n
		}
	}
	return 1
}

// cmdCheck: vcgo check -prop Cxx [-tier quick|thorough] [-repo /repo] [-verif /verif] [-level proof]
func cmdCheck(args []string) {
	fl := flag.NewFlagSet("check", flag.ExitOnError)
	repo := fl.String("repo", "/repo", "repository root")
	verif := fl.String("verif", "/verif", "verification directory")
	prop := fl.String("prop", "", "property id")
	tier := fl.String("tier", "", "quick or thorough")
	level := fl.String("level", "proof", "evidence level to report")
	extraJSON := fl.String("extra", "", "JSON file with additional coverage keys (bounded stand-ins) to merge")
	noSelftest := fl.Bool("no-selftest", false, "skip the must-fail corpus (used by the corpus run itself)")
	fl.Parse(args)
	if *tier == "" {
		*tier = os.Getenv("VERIF_TIER")
	}
	if *tier != "thorough" {
		*tier = "quick"
	}
	t0 := time.Now()
	eng, err := LoadEngine(*repo, []string{".", "./lexer", "./ebnf"}, []string{filepath.Join(*verif, "stubs", "*.spec")})
	if err != nil {
		// the tree does not load (does not compile): nothing can be decided
		fmt.Printf("UNDECIDED property=%s reason=repository does not load: %v\n", *prop, firstLine(err.Error()))
		ev := map[string]any{"property_id": *prop, "tier": *tier, "seed": seedFromEnv(), "level": "other", "wall_s": time.Since(t0).Seconds(),
			"coverage": map[string]any{"explanation": "repository failed to load; no obligations generated: " + firstLine(err.Error())}, "violations": 0}
		writeEvidence(filepath.Join(*verif, "evidence", *prop+".json"), ev)
		os.Exit(0)
	}
	// replay files of earlier runs of this property are stale
	if old, _ := filepath.Glob(filepath.Join(*verif, "replays", *prop+"_*.json")); len(old) > 0 {
		for _, f := range old {
			os.Remove(f)
		}
	}
	eng.verifDir = *verif
	kfs := loadKnown(filepath.Join(*verif, "known_findings.json"))
	pp, lines := runProof(eng, *prop, *tier, kfs, filepath.Join(*verif, "replays"))
	for _, l := range lines {
		fmt.Println(l)
	}
	// C09: frame obligations over the runtime call graph
	var frame *frameResult
	if *prop == "C09" {
		frame = eng.FrameScan()
		for _, v := range frame.Violations {
			if k := matchKnown(kfs, *prop, "frame:"+v.Pos); k != nil {
				fmt.Printf("KNOWN-FINDING: property=%s %s [frame:%s]\n", *prop, k.What, v.Pos)
				pp.Known = append(pp.Known, "frame:"+v.String())
				continue
			}
			pp.Violations++
			path := filepath.Join(*verif, "replays", fmt.Sprintf("%s_frame_%d.json", *prop, pp.Violations))
			os.MkdirAll(filepath.Dir(path), 0o755)
			rf := map[string]any{"property": *prop, "obligation": "frame: " + v.String(), "kind": "frame obligation (static)",
				"solver_output": "the written location is reachable from a shared Parser / Definition / package-level value and was not allocated in this function",
				"replayed_on_real_code": false, "how_to_replay": "cd /verif && ./check C09"}
			rb, _ := json.MarshalIndent(rf, "", "  ")
			os.WriteFile(path, rb, 0o644)
			fmt.Printf("VIOLATION property=%s replay=%s obligation=frame:%s no-failing-input-found\n", *prop, path, v.Pos)
		}
	}
	// bounded stand-ins for the parts no contract can reach (labelled bounded, never counted as proved)
	bounded, problems := runBounded(*repo, *verif, *prop, *tier)
	for _, pr := range problems {
		fmt.Printf("UNDECIDED property=%s reason=%s\n", *prop, firstLine(pr))
		pp.Undecided = append(pp.Undecided, pr)
	}
	bEvals, bDistinct := 0, 0
	var bSamples []string
	var bRules []string
	for _, b := range bounded {
		bEvals += b.Evaluations
		bDistinct += b.Distinct
		bSamples = append(bSamples, b.Samples...)
		if b.Rule != "" {
			bRules = append(bRules, b.Check+": "+b.Rule+" [bound: "+b.Bound+"]")
		}
		for _, v := range b.Violations {
			if k := matchKnownBounded(kfs, *prop, b.Check, v); k != nil {
				fmt.Printf("KNOWN-FINDING: property=%s %s [bounded:%s]\n", *prop, k.What, b.Check)
				pp.Known = append(pp.Known, "bounded:"+b.Check+": "+v)
				continue
			}
			pp.Violations++
			path := filepath.Join(*verif, "replays", *prop+"_bounded_"+sanitize(b.Check)+fmt.Sprintf("_%d.json", pp.Violations))
			os.MkdirAll(filepath.Dir(path), 0o755)
			rf := map[string]any{"property": *prop, "obligation": "bounded:" + b.Check, "kind": "bounded stand-in", "failing_input": v,
				"real_code_outcome": "the check ran on the real code of /repo (in-package test injected with go test -overlay) and observed this failure",
				"replayed_on_real_code": true, "bound": b.Bound, "how_to_replay": "cd /verif && ./check " + *prop + " " + *tier + "   (the bounded stand-in is deterministic)"}
			rb, _ := json.MarshalIndent(rf, "", "  ")
			os.WriteFile(path, rb, 0o644)
			fmt.Printf("VIOLATION property=%s replay=%s obligation=bounded:%s\n", *prop, path, b.Check)
			if pp.Violations > 20 {
				break
			}
		}
	}
	// baseline comparison (vacuity guard iii)
	baseline := map[string]int{}
	if b, err := os.ReadFile(filepath.Join(*verif, "baseline_obligations.json")); err == nil {
		json.Unmarshal(b, &baseline)
	}
	total := pp.Obligations + len(pp.Known)
	if want, ok := baseline[*prop]; ok && total < want && len(pp.Undecided) == 0 {
		fmt.Printf("UNDECIDED property=%s reason=only %d obligations generated, baseline has %d\n", *prop, total, want)
		pp.Undecided = append(pp.Undecided, fmt.Sprintf("obligation count %d below baseline %d", total, want))
	}
	cov := map[string]any{
		"obligations":              pp.Obligations,
		"discharged":               pp.Discharged,
		"checker_cmd":              fmt.Sprintf("/verif/bin/vcgo check -prop %s -tier %s (z3-new 5.1.0 first, then race z3 4.8.12 / z3-new / cvc5 1.0.3)", *prop, *tier),
		"trusted_base":             append(append([]string{}, pp.Trusted...), idealisations...),
		"functions_under_contract": pp.Functions,
		"lemmas":                   pp.Lemmas,
		"discharged_by_backend":    pp.ByBackend,
		"obligations_by_kind":      pp.ByKind,
		"solver_ms_total":          pp.SolverMs,
		"undecided":                pp.Undecided,
		"failed":                   pp.Failed,
		"known_finding_obligations": pp.Known,
		"notes":                    pp.Notes,
		"samples":                  pp.Samples,
		"contract_files":           eng.specFiles,
		"return_path_covers":                      pp.PathCovers,
		"return_paths_unreachable_under_contract": pp.DeadReturns,
	}
	if *extraJSON != "" {
		if b, err := os.ReadFile(*extraJSON); err == nil {
			var extra map[string]any
			if json.Unmarshal(b, &extra) == nil {
				for k, v := range extra {
					cov[k] = v
				}
			}
		}
	}
	if len(bounded) > 0 {
		cov["bounded_standins"] = bounded
		cov["bounded_note"] = "bounded stand-ins are exhaustive within their stated bound and are NOT counted as proved; they run the real code of /repo through in-package tests injected with go test -overlay"
	}
	if frame != nil {
		cov["frame_functions_scanned"] = frame.Functions
		cov["frame_write_sites"] = len(frame.Sites)
		cov["frame_write_sites_into_shared_state"] = len(frame.Violations)
		var fs []string
		for i, st := range frame.Sites {
			if i%9 == 0 && len(fs) < 12 {
				fs = append(fs, st.String()+" => "+st.Verdict)
			}
		}
		cov["frame_samples"] = fs
		cov["frame_roots"] = frame.Roots
		bEvals += len(frame.Sites)
		bDistinct += len(frame.Sites)
		bSamples = append(bSamples, fs...)
		bRules = append(bRules, "frame scan: every store / map update / append / copy / delete in the functions reachable from Parse*, Lex*, String, Next, applyAction and ebnf.Parse*; discharged when the target is allocated in the function or is per-call state")
	}
	// thorough tier: the must-fail corpus of this property (seeded changes applied to a scratch copy of /repo)
	if *tier == "thorough" && !*noSelftest {
		st := runSelftest(*repo, *verif, *prop)
		if len(st) > 0 {
			cov["must_fail_corpus"] = st
			for _, e := range st {
				if !e.Caught && strings.HasPrefix(e.Note, "the seeded change no longer applies") {
					fmt.Printf("SELFTEST-STALE property=%s seed=%s (the seeded change no longer applies to the current tree: later commits rewrote the lines it changes; not run)\n", *prop, e.Seed)
				} else if !e.Caught {
					fmt.Printf("SELFTEST-MISS property=%s seed=%s (the check did not flag a change known to break the property; this is a weakness of the check, not a violation found in /repo)\n", *prop, e.Seed)
				}
			}
		}
	}
	if *level != "proof" {
		cov["explanation"] = "contract obligations discharged by SMT for the functions listed (if any) plus bounded stand-ins; see level_note in MANIFEST.json"
		cov["evaluations"] = bEvals
		cov["distinct_nontrivial"] = bDistinct
		cov["rule"] = strings.Join(bRules, " || ")
		cov["exhaustive"] = true
		if len(bSamples) > 0 {
			cov["samples"] = bSamples
		}
	}
	ev := map[string]any{
		"property_id": *prop, "tier": *tier, "seed": seedFromEnv(), "level": *level,
		"coverage": cov, "assumptions": append(append([]string{}, pp.Trusted...), idealisations...),
		"wall_s": time.Since(t0).Seconds(), "violations": pp.Violations,
	}
	writeEvidence(filepath.Join(*verif, "evidence", *prop+".json"), ev)
	fmt.Printf("property=%s functions=%d obligations=%d discharged=%d known=%d undecided=%d violations=%d wall=%.1fs\n",
		*prop, len(pp.Functions), pp.Obligations, pp.Discharged, len(pp.Known), len(pp.Undecided), pp.Violations, time.Since(t0).Seconds())
	if pp.Violations > 0 {
		os.Exit(1)
	}
}

type counterexample struct {
	Input     any
	Outcome   string
	Confirmed bool
}

// findCounterexample is filled in by replay.go (model extraction + replay on the real code).
var findCounterexample = func(eng *Engine, o *Obligation, smtDir string) *counterexample { return nil }

type selftestEntry struct {
	Seed       string `json:"seed"`
	Caught     bool   `json:"caught"`
	Violations int    `json:"violation_lines"`
	Note       string `json:"note,omitempty"`
}

// runSelftest applies each seeded change of the property to a scratch copy of the repository (never to /repo),
// runs the quick check of the property on the copy and records whether it reports a violation.
func runSelftest(repo, verif, prop string) []selftestEntry {
	dirs, _ := filepath.Glob(filepath.Join(verif, "seeded", prop+"_*"))
	sort.Strings(dirs)
	// four seeds at a time (each run is a whole quick check of the property on its own scratch copy)
	out := make([]selftestEntry, len(dirs))
	sem := make(chan struct{}, 4)
	var wg sync.WaitGroup
	for i, d := range dirs {
		wg.Add(1)
		go func(i int, d string) {
			defer wg.Done()
			sem <- struct{}{}
			defer func() { <-sem }()
			out[i] = runSelftestOne(repo, verif, prop, d)
		}(i, d)
	}
	wg.Wait()
	return out
}

func runSelftestOne(repo, verif, prop, d string) selftestEntry {
	var out []selftestEntry
	for range []int{0} {
		e := selftestEntry{Seed: filepath.Base(d)}
		tmp, err := os.MkdirTemp("", "vcgo-selftest")
		if err != nil {
			e.Note = "no scratch directory: " + err.Error()
			return e
		}
		scratch := filepath.Join(tmp, "repo")
		cp := exec.Command("rsync", "-a", "--exclude", ".git", "--exclude", "cmd/participle/participle", repo+"/", scratch+"/")
		if err := cp.Run(); err != nil {
			e.Note = "could not copy the repository: " + err.Error()
			out = append(out, e)
			os.RemoveAll(tmp)
			continue
		}
		ap := exec.Command("patch", "-p1", "-s", "-i", filepath.Join(d, "patch.diff"))
		ap.Dir = scratch
		if o, err := ap.CombinedOutput(); err != nil {
			e.Note = "the seeded change no longer applies to the current tree: " + firstLine(string(o))
			out = append(out, e)
			os.RemoveAll(tmp)
			continue
		}
		vtmp := filepath.Join(tmp, "verif")
		os.MkdirAll(filepath.Join(vtmp, "evidence"), 0o755)
		for _, sub := range []string{"stubs", "bounded", "known_findings.json"} {
			exec.Command("cp", "-r", filepath.Join(verif, sub), filepath.Join(vtmp, sub)).Run()
		}
		self, _ := os.Executable()
		ck := exec.Command(self, "check", "-repo", scratch, "-verif", vtmp, "-prop", prop, "-tier", "quick", "-no-selftest")
		ob, _ := ck.CombinedOutput()
		e.Violations = strings.Count(string(ob), "\nVIOLATION ") + map[bool]int{true: 1, false: 0}[strings.HasPrefix(string(ob), "VIOLATION ")]
		e.Caught = e.Violations > 0
		if !e.Caught {
			e.Note = firstLine(lastLines(string(ob), 1))
		}
		out = append(out, e)
		os.RemoveAll(tmp)
	}
	if len(out) == 0 {
		return selftestEntry{Seed: filepath.Base(d), Note: "not run"}
	}
	return out[0]
}

func lastLines(s string, n int) string {
	ls := strings.Split(strings.TrimSpace(s), "\n")
	if len(ls) > n {
		ls = ls[len(ls)-n:]
	}
	return strings.Join(ls, "\n")
}
