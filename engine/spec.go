package main

import (
	"fmt"
	"go/ast"
	"go/parser"
	"os"
	"regexp"
	"strconv"
	"strings"
)

// ---- contract file model ----

type Param struct {
	Name string
	Type string // Go type text
}

type SpecFn struct {
	Name   string
	Params []Param
	Ret    string // Go type text; "bool" for preds
	Body   ast.Expr
	Rec    bool
	Src    string
	File   string
	Line   int
	Pkg    string
}

type Lemma struct {
	Pkg      string
	Name     string
	Params   []Param
	Requires []Clause
	Ensures  []Clause
	// induction: variable name and base expression ("induction b from a")
	IndVar  string
	IndBase ast.Expr
	Trusted bool // axiom (trusted), not proved
	Uses    []UseHint
	Tags    []string
	File    string
	Line    int
}

type Clause struct {
	Expr ast.Expr
	Src  string
	Tags []string // property tags; empty = inherit
	Name string   // optional label
	Line int
}

type UseHint struct {
	Lemma string
	Args  []ast.Expr
	At    string // "entry", "loop N", "exit", "call <name>#k", "always"
	Src   string
}

type LoopSpec struct {
	Ordinal    int
	Invariants []Clause
	Decreases  []ast.Expr
	NoTerm     bool
	Modifies   []ast.Expr
}

type FuncSpec struct {
	Key        string // e.g. "(*PeekingLexer).Next", "Upgrade", "iface:Lexer.Next", "stub:strings.Count"
	Pkg        string // package path the contract file belongs to ("" for stubs)
	Tags       []string
	Requires   []Clause
	Ensures    []Clause
	Modifies   []ast.Expr
	ModSrc     []string
	Pure       bool
	Function   bool // results are a deterministic function of the argument values only (modelled as uninterpreted functions)
	Loops      map[int]*LoopSpec
	Uses       []UseHint
	AllowPanic map[int]string // panic ordinal -> reason; -1 = all
	Inline     bool           // no contract; always inline (loop invariants may still be given)
	Overflow   bool           // generate overflow obligations
	Trusted    bool           // stub / assumed
	Ghosts     []Param        // ghost parameters (existentially supplied by use sites as fresh symbols)
	Asserts    []CallAssert
	Binds      []CallBind
	FrameTags  []string   // "frame-tags C09": extra property tags for the frame obligations of this function
	Sweep      bool       // zero-annotation sweep: loops are cut with the invariant "true", reference parameters are non-nil
	Lets       []CallBind // "let name = expr after call callee#k": a local ghost fixed right after one call site
	Implements string // interface contract this method must satisfy
	AfterLoop  []CallAssert // "after loop N: assert e" (Ordinal = loop ordinal)
	AllowKinds map[string]string // obligation kinds not checked in this function (assumptions, listed in the evidence)
	NoRecursion []string   // property tags of a "no-recursion" clause: the function must not reach itself through static calls
	Fresh      []string // names of results that are freshly allocated
	NoSafety   bool
	Params     []Param // for stubs/interfaces: parameter names
	Results    []Param
	File       string
	Line       int
}

// CallBind supplies a ghost argument of a callee at one call site: "bind callee#k name = expr".
type CallBind struct {
	Callee  string
	Ordinal int
	Name    string
	Type    string // let only: the ghost's type (it is unconstrained on paths that do not pass the call site)
	Expr    ast.Expr
	Default ast.Expr // let only, optional: the value on paths that do not pass the call site (evaluated at entry)
}

type CallAssert struct {
	Assume  bool   // assumed (listed in the evidence) instead of proved
	After   bool   // (assumptions only) holds in the state after the call returns
	Callee  string // "strconv.ParseInt"
	Ordinal int
	Expr    ast.Expr
	Src     string
	Tags    []string
}

type SpecFile struct {
	Fns     map[string]*SpecFn
	Lemmas  map[string]*Lemma
	Funcs   map[string]*FuncSpec
	Globals []Clause // "global <expr>" facts about package variables
	Order   []string
}

func NewSpecFile() *SpecFile {
	return &SpecFile{Fns: map[string]*SpecFn{}, Lemmas: map[string]*Lemma{}, Funcs: map[string]*FuncSpec{}}
}

// ---- preprocessing of ==> and <==> ----

// splitTop splits s at top-level occurrences of sep (outside parens/brackets/braces/strings).
func splitTop(s, sep string, firstOnly bool) []string {
	var parts []string
	depth := 0
	start := 0
	inStr := byte(0)
	for i := 0; i < len(s); i++ {
		c := s[i]
		if inStr != 0 {
			if c == '\\' {
				i++
			} else if c == inStr {
				inStr = 0
			}
			continue
		}
		switch c {
		case '"', '\'', '`':
			inStr = c
		case '(', '[', '{':
			depth++
		case ')', ']', '}':
			depth--
		default:
			if depth == 0 && strings.HasPrefix(s[i:], sep) {
				// do not confuse "==>" inside "<==>"
				if sep == "==>" && i > 0 && s[i-1] == '<' {
					continue
				}
				parts = append(parts, s[start:i])
				start = i + len(sep)
				i += len(sep) - 1
				if firstOnly {
					parts = append(parts, s[start:])
					return parts
				}
			}
		}
	}
	parts = append(parts, s[start:])
	return parts
}

// rewriteImp turns `a ==> b` into imp(a, b) and `a <==> b` into iff(a, b), recursively.
func rewriteImp(s string) string {
	if !strings.Contains(s, "==>") {
		return s
	}
	if p := splitTop(s, "<==>", true); len(p) == 2 {
		return "iff(" + rewriteImp(p[0]) + ", " + rewriteImp(p[1]) + ")"
	}
	if p := splitTop(s, "==>", true); len(p) == 2 {
		return "imp(" + rewriteImp(p[0]) + ", " + rewriteImp(p[1]) + ")"
	}
	// descend into groups
	var sb strings.Builder
	inStr := byte(0)
	for i := 0; i < len(s); i++ {
		c := s[i]
		if inStr != 0 {
			sb.WriteByte(c)
			if c == '\\' && i+1 < len(s) {
				i++
				sb.WriteByte(s[i])
			} else if c == inStr {
				inStr = 0
			}
			continue
		}
		if c == '"' || c == '\'' || c == '`' {
			inStr = c
			sb.WriteByte(c)
			continue
		}
		if c == '(' || c == '[' {
			// find matching close
			depth := 0
			j := i
			for ; j < len(s); j++ {
				if s[j] == '(' || s[j] == '[' || s[j] == '{' {
					depth++
				} else if s[j] == ')' || s[j] == ']' || s[j] == '}' {
					depth--
					if depth == 0 {
						break
					}
				}
			}
			inner := s[i+1 : j]
			pieces := splitTop(inner, ",", false)
			for k := range pieces {
				pieces[k] = rewriteImp(pieces[k])
			}
			sb.WriteByte(c)
			sb.WriteString(strings.Join(pieces, ","))
			sb.WriteByte(s[j])
			i = j
			continue
		}
		sb.WriteByte(c)
	}
	return sb.String()
}

func parseSpecExpr(src string) (ast.Expr, error) {
	txt := rewriteImp(strings.TrimSpace(src))
	e, err := parser.ParseExpr(txt)
	if err != nil {
		return nil, fmt.Errorf("spec expression %q: %v", src, err)
	}
	return e, nil
}

// ---- parsing of //@ blocks ----

var tagRe = regexp.MustCompile(`\[((?:C\d+\s*)+)\]\s*$`)
var labelRe = regexp.MustCompile(`^@([A-Za-z0-9_]+)\s+`)

func extractTags(s string) (string, []string) {
	m := tagRe.FindStringSubmatch(s)
	if m == nil {
		return s, nil
	}
	return strings.TrimSpace(s[:len(s)-len(m[0])]), strings.Fields(m[1])
}

func parseParams(s string) ([]Param, error) {
	s = strings.TrimSpace(s)
	if s == "" {
		return nil, nil
	}
	var out []Param
	for _, p := range splitTop(s, ",", false) {
		p = strings.TrimSpace(p)
		i := strings.IndexAny(p, " \t")
		if i < 0 {
			out = append(out, Param{Name: p})
			continue
		}
		out = append(out, Param{Name: p[:i], Type: strings.TrimSpace(p[i+1:])})
	}
	// Go-style "a, b int": fill missing types from the right
	for i := len(out) - 2; i >= 0; i-- {
		if out[i].Type == "" {
			out[i].Type = out[i+1].Type
		}
	}
	return out, nil
}

// splitHeader parses "name(params) ret = body"
func parseFnHeader(s string) (name string, params []Param, ret string, body string, err error) {
	i := strings.Index(s, "(")
	if i < 0 {
		return "", nil, "", "", fmt.Errorf("bad spec fn header %q", s)
	}
	name = strings.TrimSpace(s[:i])
	depth := 0
	j := i
	for ; j < len(s); j++ {
		if s[j] == '(' {
			depth++
		} else if s[j] == ')' {
			depth--
			if depth == 0 {
				break
			}
		}
	}
	params, err = parseParams(s[i+1 : j])
	rest := s[j+1:]
	k := strings.Index(rest, "=")
	if k < 0 {
		return name, params, strings.TrimSpace(rest), "", err
	}
	ret = strings.TrimSpace(rest[:k])
	body = strings.TrimSpace(rest[k+1:])
	return
}

var clauseKeywords = []string{"requires", "ensures", "modifies", "loop", "use", "pure", "inline", "allow-panic",
	"check-overflow", "ghost", "bind", "let", "frame-tags", "implements", "after", "no-recursion", "function", "assume", "allow-kind", "at", "trusted", "before", "fresh", "no-safety", "params", "results", "induction", "axiom"}

func startsWithKeyword(s string) (string, string, bool) {
	for _, k := range clauseKeywords {
		if s == k {
			return k, "", true
		}
		if strings.HasPrefix(s, k+" ") || strings.HasPrefix(s, k+"\t") {
			return k, strings.TrimSpace(s[len(k):]), true
		}
	}
	return "", "", false
}

var topKeywords = []string{"spec fn", "spec rec", "pred", "lemma", "func", "interface", "stub", "global"}

func startsWithTop(s string) (string, string, bool) {
	for _, k := range topKeywords {
		if strings.HasPrefix(s, k+" ") {
			return k, strings.TrimSpace(s[len(k):]), true
		}
	}
	return "", "", false
}

type rawItem struct {
	kind   string
	header string
	lines  []rawClause
	file   string
	line   int
}
type rawClause struct {
	kw   string
	text string
	line int
}

// ParseSpecText parses the //@ lines of one file. pkg is the package path the contracts attach to.
func (sf *SpecFile) ParseSpecText(file, pkg, text string) error {
	var items []*rawItem
	var cur *rawItem
	for ln, line := range strings.Split(text, "\n") {
		t := strings.TrimSpace(line)
		var body string
		if strings.HasPrefix(t, "//@") {
			body = t[3:]
		} else if strings.HasPrefix(t, "// @") {
			body = t[4:]
		} else {
			continue
		}
		if i := strings.Index(body, " -- "); i >= 0 {
			body = body[:i]
		}
		if strings.HasPrefix(strings.TrimSpace(body), "--") {
			continue
		}
		b := strings.TrimSpace(body)
		if b == "" {
			continue
		}
		indent := len(body) - len(strings.TrimLeft(body, " \t"))
		if kind, rest, ok := startsWithTop(b); ok && indent <= 1 {
			cur = &rawItem{kind: kind, header: rest, file: file, line: ln + 1}
			items = append(items, cur)
			continue
		}
		if cur == nil {
			return fmt.Errorf("%s:%d: clause outside of item: %s", file, ln+1, b)
		}
		if kw, rest, ok := startsWithKeyword(b); ok {
			cur.lines = append(cur.lines, rawClause{kw, rest, ln + 1})
			continue
		}
		// continuation
		if len(cur.lines) == 0 {
			cur.header += " " + b
		} else {
			cur.lines[len(cur.lines)-1].text += " " + b
		}
	}
	for _, it := range items {
		if err := sf.addItem(it, pkg); err != nil {
			return fmt.Errorf("%s:%d: %v", it.file, it.line, err)
		}
	}
	return nil
}

func (sf *SpecFile) ParseSpecFile(path, pkg string) error {
	b, err := os.ReadFile(path)
	if err != nil {
		return err
	}
	return sf.ParseSpecText(path, pkg, string(b))
}

func parseClause(text string, line int) (Clause, error) {
	text, tags := extractTags(text)
	name := ""
	if m := labelRe.FindStringSubmatch(text); m != nil {
		name = m[1]
		text = text[len(m[0]):]
	}
	e, err := parseSpecExpr(text)
	if err != nil {
		return Clause{}, err
	}
	return Clause{Expr: e, Src: text, Tags: tags, Name: name, Line: line}, nil
}

func parseUse(text string) (UseHint, error) {
	at := "entry"
	if i := strings.LastIndex(text, " at "); i >= 0 {
		at = strings.TrimSpace(text[i+4:])
		text = strings.TrimSpace(text[:i])
	}
	e, err := parseSpecExpr(text)
	if err != nil {
		return UseHint{}, err
	}
	call, ok := e.(*ast.CallExpr)
	if !ok {
		return UseHint{}, fmt.Errorf("use: expected lemma call: %s", text)
	}
	id, ok := call.Fun.(*ast.Ident)
	if !ok {
		return UseHint{}, fmt.Errorf("use: expected lemma name: %s", text)
	}
	return UseHint{Lemma: id.Name, Args: call.Args, At: at, Src: text}, nil
}

func (sf *SpecFile) addItem(it *rawItem, pkg string) error {
	switch it.kind {
	case "spec fn", "spec rec", "pred":
		name, params, ret, body, err := parseFnHeader(it.header)
		if err != nil {
			return err
		}
		if it.kind == "pred" {
			ret = "bool"
		}
		for _, l := range it.lines {
			return fmt.Errorf("unexpected clause %s in %s %s", l.kw, it.kind, name)
		}
		e, err := parseSpecExpr(body)
		if err != nil {
			return err
		}
		if _, dup := sf.Fns[name]; dup {
			return fmt.Errorf("duplicate spec fn %s", name)
		}
		sf.Fns[name] = &SpecFn{Name: name, Params: params, Ret: ret, Body: e, Rec: it.kind == "spec rec", Src: body, File: it.file, Line: it.line, Pkg: pkg}
		return nil
	case "global":
		c, err := parseClause(it.header, it.line)
		if err != nil {
			return err
		}
		c.Name = pkg
		sf.Globals = append(sf.Globals, c)
		return nil
	case "lemma":
		hdr, tags := extractTags(it.header)
		name, params, _, _, err := parseFnHeader(hdr)
		if err != nil {
			return err
		}
		lm := &Lemma{Name: name, Params: params, Tags: tags, File: it.file, Line: it.line, Pkg: pkg}
		for _, l := range it.lines {
			switch l.kw {
			case "requires", "ensures":
				c, err := parseClause(l.text, l.line)
				if err != nil {
					return err
				}
				if l.kw == "requires" {
					lm.Requires = append(lm.Requires, c)
				} else {
					lm.Ensures = append(lm.Ensures, c)
				}
			case "induction":
				// "induction b from a"
				f := strings.SplitN(l.text, " from ", 2)
				lm.IndVar = strings.TrimSpace(f[0])
				if len(f) == 2 {
					e, err := parseSpecExpr(f[1])
					if err != nil {
						return err
					}
					lm.IndBase = e
				}
			case "trusted", "axiom":
				lm.Trusted = true
			case "use":
				u, err := parseUse(l.text)
				if err != nil {
					return err
				}
				lm.Uses = append(lm.Uses, u)
			default:
				return fmt.Errorf("unexpected clause %s in lemma %s", l.kw, name)
			}
		}
		sf.Lemmas[name] = lm
		return nil
	case "func", "interface", "stub":
		hdr, tags := extractTags(it.header)
		key := strings.TrimSpace(hdr)
		fs := &FuncSpec{Key: key, Pkg: pkg, Tags: tags, Loops: map[int]*LoopSpec{}, AllowPanic: map[int]string{}, File: it.file, Line: it.line}
		if it.kind == "interface" {
			fs.Key = "iface:" + key
			fs.Trusted = false
		}
		if it.kind == "stub" {
			fs.Key = "stub:" + key
			fs.Trusted = true
			fs.Pkg = ""
		}
		for _, l := range it.lines {
			switch l.kw {
			case "requires", "ensures":
				c, err := parseClause(l.text, l.line)
				if err != nil {
					return err
				}
				if l.kw == "requires" {
					fs.Requires = append(fs.Requires, c)
				} else {
					fs.Ensures = append(fs.Ensures, c)
				}
			case "modifies":
				for _, m := range splitTop(l.text, ",", false) {
					m = strings.TrimSpace(m)
					if m == "" || m == "nothing" {
						continue
					}
					e, err := parseSpecExpr(m)
					if err != nil {
						return err
					}
					fs.Modifies = append(fs.Modifies, e)
					fs.ModSrc = append(fs.ModSrc, m)
				}
			case "allow-kind":
				f := strings.SplitN(l.text, " ", 2)
				if fs.AllowKinds == nil {
					fs.AllowKinds = map[string]string{}
				}
				reason := ""
				if len(f) > 1 {
					reason = strings.Trim(strings.TrimSpace(f[1]), `"`)
				}
				fs.AllowKinds[f[0]] = reason
			case "no-recursion":
				_, tg := extractTags(l.text)
				if len(tg) == 0 {
					tg = []string{"*"}
				}
				fs.NoRecursion = tg
			case "implements":
				fs.Implements = strings.TrimSpace(l.text)
			case "function":
				fs.Function = true
				fs.Pure = true
			case "pure":
				fs.Pure = true
			case "inline":
				fs.Inline = true
			case "trusted":
				fs.Trusted = true
			case "check-overflow":
				fs.Overflow = true
			case "no-safety":
				fs.NoSafety = true
			case "fresh":
				fs.Fresh = append(fs.Fresh, strings.Fields(strings.ReplaceAll(l.text, ",", " "))...)
			case "ghost":
				ps, err := parseParams(l.text)
				if err != nil {
					return err
				}
				fs.Ghosts = append(fs.Ghosts, ps...)
			case "params":
				ps, err := parseParams(l.text)
				if err != nil {
					return err
				}
				fs.Params = ps
			case "results":
				ps, err := parseParams(l.text)
				if err != nil {
					return err
				}
				fs.Results = ps
			case "allow-panic":
				// allow-panic <ordinal|all> "reason"
				f := strings.SplitN(l.text, " ", 2)
				ord := -1
				if f[0] != "all" {
					n, err := strconv.Atoi(strings.TrimPrefix(f[0], "#"))
					if err != nil {
						return fmt.Errorf("allow-panic: bad ordinal %q", f[0])
					}
					ord = n
				}
				reason := ""
				if len(f) > 1 {
					reason = strings.Trim(strings.TrimSpace(f[1]), `"`)
				}
				fs.AllowPanic[ord] = reason
			case "use":
				u, err := parseUse(l.text)
				if err != nil {
					return err
				}
				fs.Uses = append(fs.Uses, u)
			case "loop":
				// loop N invariant <expr> | loop N decreases <expr>[, <expr>] | loop N nonterminating-ok | loop N modifies ...
				f := strings.SplitN(l.text, " ", 3)
				if len(f) < 2 {
					return fmt.Errorf("bad loop clause %q", l.text)
				}
				n, err := strconv.Atoi(f[0])
				if err != nil {
					return fmt.Errorf("bad loop ordinal %q", f[0])
				}
				ls := fs.Loops[n]
				if ls == nil {
					ls = &LoopSpec{Ordinal: n}
					fs.Loops[n] = ls
				}
				rest := ""
				if len(f) == 3 {
					rest = f[2]
				}
				switch f[1] {
				case "invariant":
					c, err := parseClause(rest, l.line)
					if err != nil {
						return err
					}
					ls.Invariants = append(ls.Invariants, c)
				case "decreases":
					for _, d := range splitTop(rest, ",", false) {
						e, err := parseSpecExpr(d)
						if err != nil {
							return err
						}
						ls.Decreases = append(ls.Decreases, e)
					}
				case "nonterminating-ok":
					ls.NoTerm = true
				case "modifies":
					for _, m := range splitTop(rest, ",", false) {
						e, err := parseSpecExpr(m)
						if err != nil {
							return err
						}
						ls.Modifies = append(ls.Modifies, e)
					}
				default:
					return fmt.Errorf("bad loop clause kind %q", f[1])
				}
			case "bind":
				m := regexp.MustCompile(`^(\S+?)#(\d+)\s+(\w+)\s*=\s*(.*)$`).FindStringSubmatch(l.text)
				if m == nil {
					return fmt.Errorf("bad bind clause %q", l.text)
				}
				n, _ := strconv.Atoi(m[2])
				e, err := parseSpecExpr(m[4])
				if err != nil {
					return err
				}
				fs.Binds = append(fs.Binds, CallBind{Callee: m[1], Ordinal: n, Name: m[3], Expr: e})
			case "frame-tags":
				fs.FrameTags = append(fs.FrameTags, strings.Fields(strings.ReplaceAll(l.text, ",", " "))...)
			case "let":
				// let <name> <type> = <expr> after call <callee>#<k>   (expr may use arg<i>, result<i> and the variables in scope)
				m := regexp.MustCompile(`^(\w+)\s+(\S+)\s*=\s*(.*?)\s+after\s+call\s+(\S+?)#(\d+)(?:\s+default\s+(.*))?$`).FindStringSubmatch(l.text)
				if m == nil {
					return fmt.Errorf("bad let clause %q", l.text)
				}
				n, _ := strconv.Atoi(m[5])
				e, err := parseSpecExpr(m[3])
				if err != nil {
					return err
				}
				var def ast.Expr
				if m[6] != "" {
					if def, err = parseSpecExpr(m[6]); err != nil {
						return err
					}
				}
				fs.Lets = append(fs.Lets, CallBind{Callee: m[4], Ordinal: n, Name: m[1], Type: m[2], Expr: e, Default: def})
			case "at":
				m := regexp.MustCompile(`^return\s*(\d*)\s*:\s*assert\s+(.*)$`).FindStringSubmatch(l.text)
				if m == nil {
					return fmt.Errorf("bad at clause %q", l.text)
				}
				c, err := parseClause(m[2], l.line)
				if err != nil {
					return err
				}
				ord := -1
				if m[1] != "" {
					n, _ := strconv.Atoi(m[1])
					ord = -1 - n // return ordinal n is stored as -(n+1)
				}
				fs.AfterLoop = append(fs.AfterLoop, CallAssert{Ordinal: ord, Expr: c.Expr, Src: c.Src, Tags: c.Tags})
			case "after":
				m := regexp.MustCompile(`^loop\s+(\d+)\s*:\s*assert\s+(.*)$`).FindStringSubmatch(l.text)
				if m == nil {
					return fmt.Errorf("bad after clause %q", l.text)
				}
				n, _ := strconv.Atoi(m[1])
				c, err := parseClause(m[2], l.line)
				if err != nil {
					return err
				}
				fs.AfterLoop = append(fs.AfterLoop, CallAssert{Ordinal: n, Expr: c.Expr, Src: c.Src, Tags: c.Tags})
			case "assume":
				// assume call <callee>#<k>: <expr>   (an unchecked assumption at a call site; listed in the evidence)
				// assume after call <callee>#<k>: <expr>   (the same, about the state after the call has returned)
				after := false
				if strings.HasPrefix(l.text, "after ") {
					after = true
					l.text = strings.TrimSpace(strings.TrimPrefix(l.text, "after "))
				}
				m := regexp.MustCompile(`^call\s+(\S+?)#(\d+)\s*:\s*(.*)$`).FindStringSubmatch(l.text)
				if m == nil {
					return fmt.Errorf("bad assume clause %q", l.text)
				}
				n, _ := strconv.Atoi(m[2])
				c, err := parseClause(m[3], l.line)
				if err != nil {
					return err
				}
				fs.Asserts = append(fs.Asserts, CallAssert{Assume: true, After: after, Callee: m[1], Ordinal: n, Expr: c.Expr, Src: c.Src, Tags: c.Tags})
			case "before":
				// before call <callee>#<k>: assert <expr>
				m := regexp.MustCompile(`^call\s+(\S+?)#(\d+)\s*:\s*assert\s+(.*)$`).FindStringSubmatch(l.text)
				if m == nil {
					return fmt.Errorf("bad before clause %q", l.text)
				}
				n, _ := strconv.Atoi(m[2])
				c, err := parseClause(m[3], l.line)
				if err != nil {
					return err
				}
				fs.Asserts = append(fs.Asserts, CallAssert{Callee: m[1], Ordinal: n, Expr: c.Expr, Src: c.Src, Tags: c.Tags})
			default:
				return fmt.Errorf("unexpected clause %s", l.kw)
			}
		}
		k := fs.Key
		if fs.Pkg != "" && it.kind != "stub" {
			k = fs.Pkg + "::" + fs.Key
		}
		if _, dup := sf.Funcs[k]; dup {
			return fmt.Errorf("duplicate contract for %s", k)
		}
		sf.Funcs[k] = fs
		sf.Order = append(sf.Order, k)
		return nil
	}
	return fmt.Errorf("unknown item kind %s", it.kind)
}
