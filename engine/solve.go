package main

import (
	"bytes"
	"context"
	"fmt"
	"os"
	"os/exec"
	"path/filepath"
	"strings"
	"sync"
	"sync/atomic"
	"time"
)

const prelude = `(set-logic ALL)
(declare-sort Str 0)
(declare-const sempty Str)
(declare-fun slen (Str) Int)
(declare-fun ssub (Str Int Int) Str)
(declare-fun scat (Str Str) Str)
(declare-fun sat (Str Int) Int)
(declare-const zarr_Int_Str (Array Int Str))
(declare-const zarr_Str_Str (Array Str Str))
(assert (forall ((i Int)) (! (= (select zarr_Int_Str i) sempty) :pattern ((select zarr_Int_Str i)))))
(assert (forall ((i Str)) (! (= (select zarr_Str_Str i) sempty) :pattern ((select zarr_Str_Str i)))))
(declare-fun byte2str (Int) Str)
(declare-fun rune2str (Int) Str)
(declare-fun bytes2str ((Array Int Int) Int Int) Str)
(assert (forall ((a (Array Int Int)) (o Int)) (! (= (bytes2str a o 1) (byte2str (select a o))) :pattern ((bytes2str a o 1)))))
(assert (forall ((b Int)) (! (= (slen (byte2str b)) 1) :pattern ((byte2str b)))))
(assert (= (slen sempty) 0))
(assert (forall ((s Str)) (! (>= (slen s) 0) :pattern ((slen s)))))
(assert (forall ((s Str)) (! (=> (= (slen s) 0) (= s sempty)) :pattern ((slen s)))))
(assert (forall ((s Str) (i Int) (j Int)) (! (=> (and (<= 0 i) (<= i j) (<= j (slen s))) (= (slen (ssub s i j)) (- j i))) :pattern ((ssub s i j)))))
(assert (forall ((s Str) (i Int) (j Int)) (! (=> (and (= i 0) (= j (slen s))) (= (ssub s i j) s)) :pattern ((ssub s i j)))))
(assert (forall ((a Str) (b Str)) (! (= (slen (scat a b)) (+ (slen a) (slen b))) :pattern ((scat a b)))))
(assert (forall ((a Str) (b Str) (c Str)) (! (= (scat (scat a b) c) (scat a (scat b c))) :pattern ((scat (scat a b) c)))))
(assert (forall ((a Str)) (! (= (scat sempty a) a) :pattern ((scat sempty a)))))
(assert (forall ((a Str)) (! (= (scat a sempty) a) :pattern ((scat a sempty)))))
(assert (forall ((s Str) (i Int) (j Int) (a Int) (b Int)) (! (=> (and (<= 0 i) (<= i j) (<= j (slen s)) (<= 0 a) (<= a b) (<= b (- j i))) (= (ssub (ssub s i j) a b) (ssub s (+ i a) (+ i b)))) :pattern ((ssub (ssub s i j) a b)))))
(assert (forall ((s Str) (i Int)) (! (and (<= 0 (sat s i)) (<= (sat s i) 255)) :pattern ((sat s i)))))
`

// memPrelude: member(s, x) over slices of strings / integers, a defined predicate with a witness function.
const memPrelude = `(declare-fun mem_Str ((Array Int Str) Int Int Str) Bool)
(declare-fun midx_Str ((Array Int Str) Int Int Str) Int)
(assert (forall ((a (Array Int Str)) (o Int) (n Int) (x Str)) (! (=> (mem_Str a o n x) (and (<= o (midx_Str a o n x)) (< (midx_Str a o n x) (+ o n)) (= (select a (midx_Str a o n x)) x))) :pattern ((mem_Str a o n x)))))
(assert (forall ((a (Array Int Str)) (o Int) (n Int) (x Str) (j Int)) (! (=> (and (<= o j) (< j (+ o n))) (mem_Str a o n (select a j))) :pattern ((mem_Str a o n x) (select a j)))))
(declare-fun mem_Int ((Array Int Int) Int Int Int) Bool)
(declare-fun midx_Int ((Array Int Int) Int Int Int) Int)
(assert (forall ((a (Array Int Int)) (o Int) (n Int) (x Int)) (! (=> (mem_Int a o n x) (and (<= o (midx_Int a o n x)) (< (midx_Int a o n x) (+ o n)) (= (select a (midx_Int a o n x)) x))) :pattern ((mem_Int a o n x)))))
(assert (forall ((a (Array Int Int)) (o Int) (n Int) (x Int) (j Int)) (! (=> (and (<= o j) (< j (+ o n))) (mem_Int a o n (select a j))) :pattern ((mem_Int a o n x) (select a j)))))
`

// smtText renders the query for one obligation.
func (o *Obligation) smtText() string {
	c := o.ctx
	var sb strings.Builder
	sb.WriteString(prelude)
	sb.WriteString(c.decls.Text())
	// string literals
	lits := sortedKeys(c.lits)
	for _, s := range lits {
		t := c.lits[s]
		fmt.Fprintf(&sb, "(assert (= (slen %s) %d))\n", t.Op, len(s))
		for i := 0; i < len(s) && i < 16; i++ {
			fmt.Fprintf(&sb, "(assert (= (sat %s %d) %d))\n", t.Op, i, s[i])
		}
	}
	if len(lits) >= 2 {
		sb.WriteString("(assert (distinct")
		for _, s := range lits {
			sb.WriteString(" " + c.lits[s].Op)
		}
		sb.WriteString("))\n")
	}
	var body, mem strings.Builder
	for i := 0; i < o.NFacts && i < len(c.facts); i++ {
		w := &body
		if c.memFacts[i] {
			w = &mem
		}
		w.WriteString("(assert ")
		w.WriteString(c.facts[i].String())
		w.WriteString(")\n")
	}
	body.WriteString("(assert " + o.Guard.String() + ")\n")
	if !o.Cover {
		body.WriteString("(assert (not " + o.Goal.String() + "))\n")
	}
	if strings.Contains(body.String(), "mem_") {
		sb.WriteString(memPrelude)
		sb.WriteString(mem.String())
	}
	if _, ok := c.decls.funs["ikey"]; ok {
		// interface-typed map keys: the folding of (type tag, object, index) into one Int is injective
		sb.WriteString("(declare-fun ikey_0 (Int) Int)\n(declare-fun ikey_1 (Int) Int)\n(declare-fun ikey_2 (Int) Int)\n")
		sb.WriteString("(assert (forall ((a Int) (b Int) (c Int)) (! (and (= (ikey_0 (ikey a b c)) a) (= (ikey_1 (ikey a b c)) b) (= (ikey_2 (ikey a b c)) c)) :pattern ((ikey a b c)))))\n")
	}
	sb.WriteString(body.String())
	sb.WriteString("(check-sat)\n")
	return sb.String()
}

type solverSpec struct {
	name string
	args func(file string, timeoutSec int) []string
}

var solvers = []solverSpec{
	// E-matching only (no model-based quantifier instantiation): fastest and most stable on these VCs; unsat is sound either way
	{"z3-new/ematch", func(f string, t int) []string {
		return []string{"z3-new", fmt.Sprintf("-T:%d", t), "smt.auto_config=false", "smt.mbqi=false", "smt.random_seed=1", f}
	}},
	{"z3-new", func(f string, t int) []string { return []string{"z3-new", fmt.Sprintf("-T:%d", t), "smt.random_seed=1", f} }},
	{"z3", func(f string, t int) []string { return []string{"z3", fmt.Sprintf("-T:%d", t), "smt.random_seed=1", f} }},
	{"cvc5", func(f string, t int) []string {
		return []string{"cvc5", fmt.Sprintf("--tlimit=%d", t*1000), "--seed=1", f}
	}},
}

var longRetries int32

type solveResult struct {
	verdict string // unsat, sat, unknown
	solver  string
	millis  int64
	output  string
}

func runSolver(ctx context.Context, s solverSpec, file string, timeoutSec int) solveResult {
	start := time.Now()
	args := s.args(file, timeoutSec)
	cctx, cancel := context.WithTimeout(ctx, time.Duration(timeoutSec+2)*time.Second)
	defer cancel()
	cmd := exec.CommandContext(cctx, args[0], args[1:]...)
	var out bytes.Buffer
	cmd.Stdout = &out
	cmd.Stderr = &out
	_ = cmd.Run()
	txt := out.String()
	first := strings.TrimSpace(strings.SplitN(txt, "\n", 2)[0])
	v := "unknown"
	switch first {
	case "unsat":
		v = "unsat"
	case "sat":
		v = "sat"
	}
	if len(txt) > 600 {
		txt = txt[:600]
	}
	return solveResult{verdict: v, solver: s.name, millis: time.Since(start).Milliseconds(), output: strings.TrimSpace(txt)}
}

// solveOne decides one obligation: quick try with z3-new, then a race of all back ends.
func solveOne(o *Obligation, dir string, quickSec, raceSec int) {
	if o.Status != "" {
		return
	}
	if !o.Cover && o.Goal == TFalse && o.Guard == TTrue {
		o.Status, o.Solver, o.Output = "failed", "syntactic", "the obligation is false by construction"
		return
	}
	txt := o.smtText()
	o.SMTSize = len(txt)
	file := filepath.Join(dir, sanitize(o.Name)+".smt2")
	if err := os.WriteFile(file, []byte(txt), 0o644); err != nil {
		o.Status = "unknown"
		o.Output = err.Error()
		return
	}
	want := "unsat"
	if o.Cover {
		// covers: anything but unsat is fine
		r := runSolver(context.Background(), solvers[0], file, 1)
		o.Solver, o.Millis, o.Output = r.solver, r.millis, r.output
		if r.verdict == "unsat" {
			o.Status = "failed"
			o.Output = "vacuous: the contract's assumptions are contradictory (cover is unsat)"
		} else {
			o.Status = "discharged"
		}
		return
	}
	r := runSolver(context.Background(), solvers[0], file, quickSec)
	total := r.millis
	if r.verdict == want {
		o.Status, o.Solver, o.Millis, o.Output = "discharged", r.solver, total, ""
		return
	}
	if r.verdict == "sat" {
		o.Status, o.Solver, o.Millis, o.Output = "failed", r.solver, total, "sat (counter-model exists)"
		return
	}
	// race
	ctx, cancel := context.WithCancel(context.Background())
	defer cancel()
	ch := make(chan solveResult, len(solvers))
	for _, s := range solvers {
		s := s
		go func() { ch <- runSolver(ctx, s, file, raceSec) }()
	}
	var outs []string
	for range solvers {
		rr := <-ch
		if rr.verdict == "unsat" {
			o.Status, o.Solver, o.Millis = "discharged", rr.solver, total+rr.millis
			return
		}
		if rr.verdict == "sat" {
			o.Status, o.Solver, o.Millis, o.Output = "failed", rr.solver, total+rr.millis, "sat (counter-model exists)"
			return
		}
		outs = append(outs, rr.solver+": "+firstLine(rr.output))
		if rr.millis > o.Millis {
			o.Millis = rr.millis
		}
	}
	// last resort against machine load: a few obligations per run get one long, unshared attempt
	if atomic.AddInt32(&longRetries, 1) <= 3 {
		// both z3-new modes (E-matching only / default): each is the faster one on some of the large VCs
		lctx, lcancel := context.WithCancel(context.Background())
		lch := make(chan solveResult, 2)
		for _, s := range solvers[:2] {
			s := s
			go func() { lch <- runSolver(lctx, s, file, raceSec*3) }()
		}
		for i := 0; i < 2; i++ {
			rr := <-lch
			if rr.verdict == "unsat" {
				lcancel()
				o.Status, o.Solver, o.Millis = "discharged", rr.solver+"/long", total+rr.millis
				return
			}
			outs = append(outs, "long retry "+rr.solver+": "+firstLine(rr.output))
		}
		lcancel()
	}
	o.Status = "failed"
	o.Solver = "none"
	o.Millis += total
	o.Output = "no back end proved it: " + strings.Join(outs, "; ")
}

func firstLine(s string) string {
	return strings.TrimSpace(strings.SplitN(s, "\n", 2)[0])
}

// solveAll discharges obligations in parallel.
func solveAll(obls []*Obligation, dir string, quickSec, raceSec, workers int) {
	var wg sync.WaitGroup
	ch := make(chan *Obligation)
	for i := 0; i < workers; i++ {
		wg.Add(1)
		go func() {
			defer wg.Done()
			for o := range ch {
				solveOne(o, dir, quickSec, raceSec)
			}
		}()
	}
	for _, o := range obls {
		ch <- o
	}
	close(ch)
	wg.Wait()
}
