package main

import (
	"os"
	"fmt"
	"go/ast"
	"go/constant"
	"go/parser"
	"go/token"
	"go/types"
	"strconv"
	"strings"
)

// Env evaluates spec expressions to terms.
type Env struct {
	c      *FnCtx
	vars   map[string]Val
	lookup func(name string) (Val, bool)
	lookupAddr func(name string) (Val, bool) // address of an alloc-backed source variable
	entry      map[string]Val                // parameter values at function entry (what old(x) means for a parameter x)
	header     func(name string) (Val, bool) // value of a loop variable at the loop header (prev(x) at a back edge)
	isOld      bool
	cur    *State
	old    *State
	pkg    *types.Package
	guard  *Term // reach condition under which auxiliary facts are assumed
}

func (e *Env) with(vars map[string]Val) *Env {
	n := *e
	n.vars = map[string]Val{}
	for k, v := range e.vars {
		n.vars[k] = v
	}
	for k, v := range vars {
		n.vars[k] = v
	}
	return &n
}

func (e *Env) inOld() *Env {
	n := *e
	n.cur = e.old
	n.isOld = true
	return &n
}

func specErr(format string, args ...interface{}) unsupported {
	return unsupported("spec: " + fmt.Sprintf(format, args...))
}

// resolveType resolves a Go type expression written in a contract.
func (eng *Engine) resolveType(pkg *types.Package, src string) types.Type {
	x, err := parser.ParseExpr(src)
	if err != nil {
		panic(specErr("type %q: %v", src, err))
	}
	return eng.resolveTypeExpr(pkg, x)
}

func (eng *Engine) resolveTypeExpr(pkg *types.Package, x ast.Expr) types.Type {
	switch t := x.(type) {
	case *ast.Ident:
		if pkg != nil {
			if o := pkg.Scope().Lookup(t.Name); o != nil {
				if tn, ok := o.(*types.TypeName); ok {
					return tn.Type()
				}
			}
		}
		if o := types.Universe.Lookup(t.Name); o != nil {
			if tn, ok := o.(*types.TypeName); ok {
				return tn.Type()
			}
		}
		panic(specErr("unknown type %s", t.Name))
	case *ast.StarExpr:
		return types.NewPointer(eng.resolveTypeExpr(pkg, t.X))
	case *ast.ArrayType:
		if t.Len == nil {
			return types.NewSlice(eng.resolveTypeExpr(pkg, t.Elt))
		}
		if bl, ok := t.Len.(*ast.BasicLit); ok {
			n, _ := strconv.ParseInt(bl.Value, 10, 64)
			return types.NewArray(eng.resolveTypeExpr(pkg, t.Elt), n)
		}
	case *ast.MapType:
		return types.NewMap(eng.resolveTypeExpr(pkg, t.Key), eng.resolveTypeExpr(pkg, t.Value))
	case *ast.ParenExpr:
		return eng.resolveTypeExpr(pkg, t.X)
	case *ast.SelectorExpr:
		if id, ok := t.X.(*ast.Ident); ok {
			if p := eng.findPkgByName(pkg, id.Name); p != nil {
				if o := p.Scope().Lookup(t.Sel.Name); o != nil {
					if tn, ok := o.(*types.TypeName); ok {
						return tn.Type()
					}
				}
			}
		}
	case *ast.InterfaceType:
		return types.NewInterfaceType(nil, nil)
	case *ast.FuncType:
		return types.NewSignatureType(nil, nil, nil, nil, nil, false)
	}
	panic(specErr("cannot resolve type expression %T", x))
}

func (eng *Engine) findPkgByName(from *types.Package, name string) *types.Package {
	if from != nil {
		for _, im := range from.Imports() {
			if im.Name() == name {
				return im
			}
		}
	}
	for _, p := range eng.allTypes {
		if p.Name() == name {
			return p
		}
	}
	return nil
}

func intVal(t *Term) Val { return Val{T: types.Typ[types.Int], L: []*Term{t}} }
func boolVal(t *Term) Val {
	return Val{T: types.Typ[types.Bool], L: []*Term{t}}
}
func strVal(t *Term) Val { return Val{T: types.Typ[types.String], L: []*Term{t}} }

func (v Val) term() *Term {
	if len(v.L) != 1 {
		panic(specErr("expected scalar, got %s with %d leaves", v.T, len(v.L)))
	}
	return v.L[0]
}

func isString(t types.Type) bool {
	b, ok := t.Underlying().(*types.Basic)
	return ok && b.Info()&types.IsString != 0
}
func isBoolean(t types.Type) bool {
	b, ok := t.Underlying().(*types.Basic)
	return ok && b.Info()&types.IsBoolean != 0
}

func (e *Env) evalBool(x ast.Expr) *Term {
	v := e.eval(x)
	if len(v.L) != 1 || v.L[0].S != SBool {
		panic(specErr("expected boolean expression: %s", exprString(x)))
	}
	return v.L[0]
}

func exprString(x ast.Expr) string {
	return types.ExprString(x)
}

// evalAddr evaluates an addressable spec expression to a pointer.
func (e *Env) evalAddr(x ast.Expr) (Val, bool) {
	switch t := x.(type) {
	case *ast.ParenExpr:
		return e.evalAddr(t.X)
	case *ast.StarExpr:
		p := e.eval(t.X)
		if p.IsPtr() {
			return p, true
		}
	case *ast.SelectorExpr:
		// package-qualified global?
		if id, ok := t.X.(*ast.Ident); ok {
			if _, isVar := e.resolveIdent(id.Name); !isVar {
				if p := e.c.eng.findPkgByName(e.pkg, id.Name); p != nil {
					if o, ok := p.Scope().Lookup(t.Sel.Name).(*types.Var); ok {
						return e.c.globalPtr(o), true
					}
					return Val{}, false
				}
			}
		}
		var base Val
		if b, ok := e.evalAddr(t.X); ok {
			base = b
		} else {
			b := e.eval(t.X)
			if !b.IsPtr() {
				return Val{}, false
			}
			base = b
		}
		// base is a pointer to a struct (possibly needing auto-deref through embedded pointers)
		return e.fieldAddr(base, t.Sel.Name)
	case *ast.IndexExpr:
		s := e.eval(t.X)
		if _, ok := s.T.Underlying().(*types.Slice); ok {
			i := e.eval(t.Index).term()
			el := elemType(s.T)
			return mkPtr(types.NewPointer(el), el, 0, s.L[0], Add(s.L[1], i)), true
		}
	case *ast.Ident:
		if e.lookupAddr != nil {
			if _, shadow := e.vars[t.Name]; !shadow {
				if p, ok := e.lookupAddr(t.Name); ok {
					if _, isStruct := elemType(p.T).Underlying().(*types.Struct); isStruct {
						return p, true
					}
				}
			}
		}
		if o := e.lookupGlobalVar(t.Name); o != nil {
			if _, isVar := e.resolveIdent(t.Name); !isVar {
				return e.c.globalPtr(o), true
			}
		}
	}
	return Val{}, false
}

func (e *Env) lookupGlobalVar(name string) *types.Var {
	if e.pkg == nil {
		return nil
	}
	if o, ok := e.pkg.Scope().Lookup(name).(*types.Var); ok {
		return o
	}
	return nil
}

// fieldAddr computes &base.name where base is a pointer to a struct type.
func (e *Env) fieldAddr(base Val, name string) (Val, bool) {
	st := elemType(base.T)
	obj, index, _ := types.LookupFieldOrMethod(st, true, e.pkgFor(st), name)
	if obj == nil {
		// try ignoring export rules: search manually
		idx := findFieldPath(st, name)
		if idx == nil {
			panic(specErr("no field %s in %s", name, st))
		}
		index = idx
	} else if _, ok := obj.(*types.Var); !ok {
		panic(specErr("%s is not a field of %s", name, st))
	}
	cur := base
	for _, i := range index {
		ct := elemType(cur.T)
		s, ok := ct.Underlying().(*types.Struct)
		if !ok {
			// embedded pointer: load it
			if _, isPtr := ct.Underlying().(*types.Pointer); isPtr {
				cur = e.c.loadPtr(e.cur, cur, ct)
				s = elemType(cur.T).Underlying().(*types.Struct)
			} else {
				panic(specErr("field path through non-struct %s", ct))
			}
		}
		f := s.Field(i)
		np := Val{T: types.NewPointer(f.Type()), L: cur.L, Root: cur.Root, Base: cur.Base + fieldOffset(s, i), Fn: cur.Fn}
		cur = np
	}
	return cur, true
}

func (e *Env) pkgFor(t types.Type) *types.Package {
	if n, ok := t.(*types.Named); ok && n.Obj().Pkg() != nil {
		return n.Obj().Pkg()
	}
	if p, ok := t.(*types.Pointer); ok {
		return e.pkgFor(p.Elem())
	}
	return e.pkg
}

func findFieldPath(t types.Type, name string) []int {
	s, ok := t.Underlying().(*types.Struct)
	if !ok {
		return nil
	}
	for i := 0; i < s.NumFields(); i++ {
		if s.Field(i).Name() == name {
			return []int{i}
		}
	}
	for i := 0; i < s.NumFields(); i++ {
		f := s.Field(i)
		if f.Embedded() {
			ft := f.Type()
			if p, ok := ft.Underlying().(*types.Pointer); ok {
				ft = p.Elem()
			}
			if sub := findFieldPath(ft, name); sub != nil {
				return append([]int{i}, sub...)
			}
		}
	}
	return nil
}

func (e *Env) resolveIdent(name string) (Val, bool) {
	if v, ok := e.vars[name]; ok {
		return v, true
	}
	if e.isOld && e.entry != nil {
		if v, ok := e.entry[name]; ok {
			return v, true
		}
	}
	if e.lookup != nil {
		if v, ok := e.lookup(name); ok {
			return v, true
		}
	}
	return Val{}, false
}

func (e *Env) constOf(o types.Object) (Val, bool) {
	c, ok := o.(*types.Const)
	if !ok {
		return Val{}, false
	}
	return e.c.constVal(c.Type(), c.Val()), true
}

func (c *FnCtx) constVal(t types.Type, v constant.Value) Val {
	if b, ok := t.Underlying().(*types.Basic); ok && b.Info()&types.IsUntyped != 0 {
		t = types.Default(t)
	}
	switch v.Kind() {
	case constant.Bool:
		return Val{T: t, L: []*Term{BoolT(constant.BoolVal(v))}}
	case constant.Int:
		return Val{T: t, L: []*Term{BigIntT(v.ExactString())}}
	case constant.String:
		return Val{T: t, L: []*Term{c.strLit(constant.StringVal(v))}}
	case constant.Float:
		// opaque: distinct symbol per literal text
		return Val{T: t, L: []*Term{c.decls.Const("flt_"+sanitize(v.ExactString()), SInt)}}
	}
	panic(unsupported("constant kind " + v.Kind().String()))
}

// strLit returns the constant for a string literal.
func (c *FnCtx) strLit(s string) *Term {
	if s == "" {
		return Var("sempty", SStr)
	}
	if t, ok := c.lits[s]; ok {
		return t
	}
	name := fmt.Sprintf("slit_%d_%s", len(c.lits), sanitizeIdent(s))
	t := c.decls.Const(name, SStr)
	c.lits[s] = t
	return t
}

func sanitizeIdent(s string) string {
	var sb strings.Builder
	for _, r := range s {
		if (r >= 'a' && r <= 'z') || (r >= 'A' && r <= 'Z') || (r >= '0' && r <= '9') {
			sb.WriteRune(r)
		} else {
			sb.WriteByte('_')
		}
		if sb.Len() > 12 {
			break
		}
	}
	return sb.String()
}

func (e *Env) eval(x ast.Expr) Val {
	c := e.c
	switch t := x.(type) {
	case *ast.ParenExpr:
		return e.eval(t.X)
	case *ast.BasicLit:
		switch t.Kind {
		case token.INT:
			return intVal(BigIntT(t.Value))
		case token.STRING:
			s, err := strconv.Unquote(t.Value)
			if err != nil {
				panic(specErr("bad string literal %s", t.Value))
			}
			return strVal(c.strLit(s))
		case token.CHAR:
			s, _, _, err := strconv.UnquoteChar(t.Value[1:len(t.Value)-1], '\'')
			if err != nil {
				panic(specErr("bad char literal %s", t.Value))
			}
			return Val{T: types.Typ[types.Rune], L: []*Term{IntT(int64(s))}}
		}
	case *ast.Ident:
		switch t.Name {
		case "true":
			return boolVal(TTrue)
		case "false":
			return boolVal(TFalse)
		case "nil":
			return Val{T: types.Typ[types.UntypedNil], L: nil}
		}
		if v, ok := e.resolveIdent(t.Name); ok {
			return v
		}
		if e.pkg != nil {
			if o := e.pkg.Scope().Lookup(t.Name); o != nil {
				if v, ok := e.constOf(o); ok {
					return v
				}
				if gv, ok := o.(*types.Var); ok {
					p := c.globalPtr(gv)
					return c.loadPtr(e.cur, p, gv.Type())
				}
			}
		}
		if sf, ok := c.eng.spec.Fns[t.Name]; ok && len(sf.Params) == 0 {
			return e.callSpecFn(sf, nil)
		}
		panic(specErr("unknown identifier %s", t.Name))
	case *ast.SelectorExpr:
		// qualified constant / global
		if id, ok := t.X.(*ast.Ident); ok {
			if _, isVar := e.resolveIdent(id.Name); !isVar {
				if p := c.eng.findPkgByName(e.pkg, id.Name); p != nil {
					o := p.Scope().Lookup(t.Sel.Name)
					if o == nil {
						panic(specErr("unknown %s.%s", id.Name, t.Sel.Name))
					}
					if v, ok := e.constOf(o); ok {
						return v
					}
					if gv, ok := o.(*types.Var); ok {
						return c.loadPtr(e.cur, c.globalPtr(gv), gv.Type())
					}
					panic(specErr("unsupported qualified identifier %s.%s", id.Name, t.Sel.Name))
				}
			}
		}
		if p, ok := e.evalAddr(x); ok {
			return c.loadPtr(e.cur, p, elemType(p.T))
		}
		b := e.eval(t.X)
		return e.fieldOfValue(b, t.Sel.Name)
	case *ast.StarExpr:
		p := e.eval(t.X)
		if !p.IsPtr() {
			panic(specErr("deref of non-pointer %s", exprString(t.X)))
		}
		return c.loadPtr(e.cur, p, elemType(p.T))
	case *ast.UnaryExpr:
		switch t.Op {
		case token.NOT:
			return boolVal(Not(e.evalBool(t.X)))
		case token.SUB:
			v := e.eval(t.X)
			return Val{T: v.T, L: []*Term{Neg(v.term())}}
		case token.AND:
			if p, ok := e.evalAddr(t.X); ok {
				return p
			}
			panic(specErr("cannot take address of %s", exprString(t.X)))
		}
	case *ast.BinaryExpr:
		return e.evalBinary(t)
	case *ast.IndexExpr:
		b := e.eval(t.X)
		switch u := b.T.Underlying().(type) {
		case *types.Slice:
			p, _ := e.evalAddr(x)
			return c.loadPtr(e.cur, p, u.Elem())
		case *types.Map:
			k := e.eval(t.Index)
			v, _ := c.mapLookup(e.cur, b, k)
			return v
		case *types.Basic:
			if isString(b.T) {
				i := e.eval(t.Index).term()
				return Val{T: types.Typ[types.Byte], L: []*Term{c.sAt(b.term(), i)}}
			}
		}
		panic(specErr("cannot index %s", b.T))
	case *ast.SliceExpr:
		b := e.eval(t.X)
		var lo, hi *Term
		if t.Low != nil {
			lo = e.eval(t.Low).term()
		} else {
			lo = IntT(0)
		}
		if isString(b.T) {
			if t.High != nil {
				hi = e.eval(t.High).term()
			} else {
				hi = c.sLen(b.term())
			}
			return Val{T: b.T, L: []*Term{c.sSub(b.term(), lo, hi)}}
		}
		if _, ok := b.T.Underlying().(*types.Slice); ok {
			if t.High != nil {
				hi = e.eval(t.High).term()
			} else {
				hi = b.L[2]
			}
			return Val{T: b.T, L: []*Term{b.L[0], Add(b.L[1], lo), Sub(hi, lo), Sub(b.L[3], lo)}}
		}
		panic(specErr("cannot slice %s", b.T))
	case *ast.CallExpr:
		return e.evalCall(t)
	case *ast.TypeAssertExpr:
		// x.(T): the value of interface x viewed as T (no check; combine with typeis when needed)
		v := e.eval(t.X)
		typ := c.eng.resolveTypeExpr(e.pkg, t.Type)
		if _, ok := v.T.Underlying().(*types.Interface); !ok {
			panic(specErr("type assertion on non-interface %s", v.T))
		}
		return c.unbox(v, typ)
	case *ast.CompositeLit:
		typ := c.eng.resolveTypeExpr(e.pkg, t.Type)
		st, ok := typ.Underlying().(*types.Struct)
		if !ok {
			panic(specErr("composite literal of non-struct %s", typ))
		}
		v := zeroVal(typ)
		v.L = append([]*Term(nil), v.L...)
		for i, el := range t.Elts {
			fi := i
			val := el
			if kv, ok := el.(*ast.KeyValueExpr); ok {
				name := kv.Key.(*ast.Ident).Name
				fi = -1
				for j := 0; j < st.NumFields(); j++ {
					if st.Field(j).Name() == name {
						fi = j
					}
				}
				if fi < 0 {
					panic(specErr("no field %s in %s", name, typ))
				}
				val = kv.Value
			}
			fv := e.eval(val)
			fv = e.coerce(fv, st.Field(fi).Type())
			copy(v.L[fieldOffset(st, fi):], fv.L)
		}
		return v
	}
	panic(specErr("unsupported expression %s (%T)", exprString(x), x))
}

// coerce adapts nil / untyped values to the wanted type.
func (e *Env) coerce(v Val, t types.Type) Val {
	if b, ok := v.T.(*types.Basic); ok && b.Kind() == types.UntypedNil {
		return zeroVal(t)
	}
	return v
}

func (e *Env) fieldOfValue(b Val, name string) Val {
	if b.IsPtr() {
		p, _ := e.fieldAddr(b, name)
		return e.c.loadPtr(e.cur, p, elemType(p.T))
	}
	idx := findFieldPath(b.T, name)
	if idx == nil {
		panic(specErr("no field %s in %s", name, b.T))
	}
	cur := b
	for _, i := range idx {
		s, ok := cur.T.Underlying().(*types.Struct)
		if !ok {
			if cur.IsPtr() {
				cur = e.c.loadPtr(e.cur, cur, elemType(cur.T))
				s = cur.T.Underlying().(*types.Struct)
			} else {
				panic(specErr("field path through %s", cur.T))
			}
		}
		cur = cur.sub(fieldOffset(s, i), s.Field(i).Type())
	}
	return cur
}

func isNilVal(v Val) bool {
	b, ok := v.T.(*types.Basic)
	return ok && b.Kind() == types.UntypedNil
}

// nilTest: v == nil for pointer, slice, map, interface, func
func nilTest(v Val) *Term {
	switch v.T.Underlying().(type) {
	case *types.Pointer, *types.Slice, *types.Map, *types.Signature, *types.Chan:
		return Eq(v.L[0], IntT(0))
	case *types.Interface:
		return Eq(v.L[0], IntT(0))
	}
	if len(v.L) == 1 && v.L[0].S == SInt {
		return Eq(v.L[0], IntT(0))
	}
	panic(specErr("nil comparison on %s", v.T))
}

func (e *Env) evalBinary(t *ast.BinaryExpr) Val {
	c := e.c
	switch t.Op {
	case token.LAND:
		return boolVal(And(e.evalBool(t.X), e.evalBool(t.Y)))
	case token.LOR:
		return boolVal(Or(e.evalBool(t.X), e.evalBool(t.Y)))
	}
	a := e.eval(t.X)
	b := e.eval(t.Y)
	switch t.Op {
	case token.EQL, token.NEQ:
		var r *Term
		switch {
		case isNilVal(a) && isNilVal(b):
			r = TTrue
		case isNilVal(b):
			r = nilTest(a)
		case isNilVal(a):
			r = nilTest(b)
		default:
			if len(a.L) != len(b.L) {
				panic(specErr("comparison of %s and %s", a.T, b.T))
			}
			r = valEq(a, b)
		}
		if t.Op == token.NEQ {
			r = Not(r)
		}
		return boolVal(r)
	case token.LSS, token.LEQ, token.GTR, token.GEQ:
		if isString(a.T) {
			panic(specErr("string ordering not supported"))
		}
		x, y := a.term(), b.term()
		switch t.Op {
		case token.LSS:
			return boolVal(Lt(x, y))
		case token.LEQ:
			return boolVal(Le(x, y))
		case token.GTR:
			return boolVal(Gt(x, y))
		default:
			return boolVal(Ge(x, y))
		}
	case token.ADD:
		if isString(a.T) || isString(b.T) {
			return Val{T: a.T, L: []*Term{c.sCat(a.term(), b.term())}}
		}
		return Val{T: a.T, L: []*Term{Add(a.term(), b.term())}}
	case token.SUB:
		return Val{T: a.T, L: []*Term{Sub(a.term(), b.term())}}
	case token.MUL:
		return Val{T: a.T, L: []*Term{Mul(a.term(), b.term())}}
	case token.QUO:
		return Val{T: a.T, L: []*Term{goDiv(a.term(), b.term())}}
	case token.REM:
		return Val{T: a.T, L: []*Term{goRem(a.term(), b.term())}}
	}
	panic(specErr("unsupported binary operator %s", t.Op))
}

// Go's truncated division expressed with SMT's floor-style div.
func goDiv(a, b *Term) *Term {
	if y, ok := b.IsConstInt(); ok && y > 0 {
		// a/b = ite(a>=0, div a b, -(div (-a) b))
		return Ite(Ge(a, IntT(0)), App("div", SInt, a, b), Neg(App("div", SInt, Neg(a), b)))
	}
	absA := Ite(Ge(a, IntT(0)), a, Neg(a))
	absB := Ite(Ge(b, IntT(0)), b, Neg(b))
	q := App("div", SInt, absA, absB)
	neg := Not(Eq(Ge(a, IntT(0)), Ge(b, IntT(0))))
	return Ite(neg, Neg(q), q)
}
func goRem(a, b *Term) *Term {
	return Sub(a, Mul(b, goDiv(a, b)))
}

func (e *Env) evalCall(t *ast.CallExpr) Val {
	c := e.c
	// conversions / builtins / spec functions
	if id, ok := t.Fun.(*ast.Ident); ok {
		switch id.Name {
		case "old":
			return e.inOld().eval(t.Args[0])
		case "imp":
			return boolVal(Imp(e.evalBool(t.Args[0]), e.evalBool(t.Args[1])))
		case "iff":
			return boolVal(Eq(e.evalBool(t.Args[0]), e.evalBool(t.Args[1])))
		case "ite":
			cond := e.evalBool(t.Args[0])
			a := e.eval(t.Args[1])
			b := e.eval(t.Args[2])
			if isNilVal(a) {
				a = zeroVal(b.T)
			}
			if isNilVal(b) {
				b = zeroVal(a.T)
			}
			if len(a.L) != len(b.L) {
				panic(specErr("ite branches differ: %s vs %s", a.T, b.T))
			}
			r := Val{T: a.T, L: make([]*Term, len(a.L)), Root: a.Root, Base: a.Base}
			for i := range a.L {
				r.L[i] = Ite(cond, a.L[i], b.L[i])
			}
			return r
		case "forall", "exists":
			// forall(k, lo, hi, body)  or forall(k T, body)
			name := t.Args[0].(*ast.Ident).Name
			c.nfresh++
			bv := Var(fmt.Sprintf("%s!%d", name, c.nfresh), SInt)
			env := e.with(map[string]Val{name: intVal(bv)})
			c.bound = append(c.bound, bv.Op)
			defer func() { c.bound = c.bound[:len(c.bound)-1] }()
			var body *Term
			if len(t.Args) == 4 {
				lo := e.eval(t.Args[1]).term()
				hi := e.eval(t.Args[2]).term()
				rng := And(Le(lo, bv), Lt(bv, hi))
				b := env.evalBool(t.Args[3])
				// re-index over absolute array positions: for every distinct offset OFF such that some array is
				// accessed at OFF+k, emit a copy of the quantifier over a = OFF+k. Each copy is equivalent to the
				// original and has a plain select pattern for that array (robust E-matching).
				offs := indexOffsets(b, bv.Op)
				if len(offs) > 0 && id.Name == "forall" {
					var copies []*Term
					for _, off := range offs {
						c.nfresh++
						av := Var(fmt.Sprintf("%s!a%d", name, c.nfresh), SInt)
						nb := reindex(b, bv.Op, off, av)
						nr := And(Le(Add(lo, off), av), Lt(av, Add(hi, off)))
						copies = append(copies, Forall([]*Term{av}, Imp(nr, nb)))
					}
					body = And(copies...)
				} else if id.Name == "forall" {
					body = Forall([]*Term{bv}, Imp(rng, b))
				} else {
					if len(offs) > 0 {
						c.nfresh++
						av := Var(fmt.Sprintf("%s!a%d", name, c.nfresh), SInt)
						b = reindex(b, bv.Op, offs[0], av)
						rng = And(Le(Add(lo, offs[0]), av), Lt(av, Add(hi, offs[0])))
						bv = av
					}
					body = Exists([]*Term{bv}, And(rng, b))
				}
			} else if len(t.Args) == 2 {
				b := env.evalBool(t.Args[1])
				if id.Name == "forall" {
					body = Forall([]*Term{bv}, b)
				} else {
					body = Exists([]*Term{bv}, b)
				}
			} else {
				panic(specErr("forall/exists takes (k, lo, hi, body) or (k, body)"))
			}
			return boolVal(body)
		case "visited":
			// visited(N, k): the range over a map that drives loop N has already yielded key k
			ordV, ok := constInt(t.Args[0])
			if !ok {
				panic(specErr("visited: the loop ordinal must be a constant"))
			}
			it := c.rangeLoop[ordV]
			if it == nil {
				panic(specErr("visited: loop %d is not a range over a map", ordV))
			}
			_, seen := c.mapLookup(e.cur, it.visited, e.eval(t.Args[1]))
			return boolVal(seen)
		case "forallt":
			// forallt(k, T, body): quantify over a value of Go type T (one bound variable per leaf)
			name := t.Args[0].(*ast.Ident).Name
			typ := c.eng.resolveTypeExpr(e.pkg, t.Args[1])
			ls := leavesOf(typ)
			v := Val{T: typ, L: make([]*Term, len(ls))}
			var bvs []*Term
			for j, l := range ls {
				c.nfresh++
				bv := Var(fmt.Sprintf("%s_%d!%d", name, j, c.nfresh), l.Sort)
				v.L[j] = bv
				bvs = append(bvs, bv)
				c.bound = append(c.bound, bv.Op)
			}
			if p, ok := typ.Underlying().(*types.Pointer); ok {
				v.Root = p.Elem()
			}
			env := e.with(map[string]Val{name: v})
			defer func() { c.bound = c.bound[:len(c.bound)-len(bvs)] }()
			return boolVal(Forall(bvs, env.evalBool(t.Args[2])))
		case "foralls":
			// foralls(s, body): quantify over a string-sorted variable
			name := t.Args[0].(*ast.Ident).Name
			c.nfresh++
			bv := Var(fmt.Sprintf("%s!%d", name, c.nfresh), SStr)
			env := e.with(map[string]Val{name: strVal(bv)})
			c.bound = append(c.bound, bv.Op)
			defer func() { c.bound = c.bound[:len(c.bound)-1] }()
			return boolVal(Forall([]*Term{bv}, env.evalBool(t.Args[1])))
		case "len":
			v := e.eval(t.Args[0])
			switch v.T.Underlying().(type) {
			case *types.Slice:
				return intVal(v.L[2])
			case *types.Map:
				return intVal(c.mapLen(e.cur, v))
			}
			if isString(v.T) {
				return intVal(c.sLen(v.term()))
			}
			panic(specErr("len of %s", v.T))
		case "cap":
			v := e.eval(t.Args[0])
			return intVal(v.L[3])
		case "min", "max":
			a := e.eval(t.Args[0]).term()
			b := e.eval(t.Args[1]).term()
			if id.Name == "min" {
				return intVal(Ite(Le(a, b), a, b))
			}
			return intVal(Ite(Ge(a, b), a, b))
		case "fresh":
			// fresh(x): x's object was allocated after the old state
			v := e.eval(t.Args[0])
			ref := v.L[0]
			if _, ok := v.T.Underlying().(*types.Interface); ok {
				ref = v.L[1]
			}
			return boolVal(And(Ge(ref, c.get(e.old, "$alloc", SInt)), Lt(ref, c.get(e.cur, "$alloc", SInt))))
		case "allocated":
			v := e.eval(t.Args[0])
			return boolVal(And(Gt(v.L[0], IntT(0)), Lt(v.L[0], c.get(e.cur, "$alloc", SInt))))
		case "typeis":
			v := e.eval(t.Args[0])
			typ := c.eng.resolveTypeExpr(e.pkg, t.Args[1])
			return boolVal(Eq(v.L[0], IntT(int64(c.eng.typeTag(typ)))))
		case "implements":
			v := e.eval(t.Args[0])
			typ := c.eng.resolveTypeExpr(e.pkg, t.Args[1])
			return boolVal(c.implementsTerm(v.L[0], typ))
		case "has":
			// has(m, k): key present
			m := e.eval(t.Args[0])
			k := e.eval(t.Args[1])
			_, ok := c.mapLookup(e.cur, m, k)
			return boolVal(ok)
		case "member":
			// member(s, x): x occurs in the slice s (element type with one Int or Str leaf); a defined predicate
			// with a witness function (prelude) that append and the stubs speak about
			sv := e.eval(t.Args[0])
			x := e.eval(t.Args[1])
			sl, ok := sv.T.Underlying().(*types.Slice)
			if !ok {
				panic(specErr("member(s, x): s must be a slice"))
			}
			leaves := leavesOf(sl.Elem())
			if len(leaves) != 1 || (leaves[0].Sort != SInt && leaves[0].Sort != SStr) || len(x.L) != 1 {
				panic(specErr("member(s, x): the element type must be a string or an integer"))
			}
			h := c.get(e.cur, heapFam(sl.Elem(), 0), heapSort(leaves[0].Sort))
			return boolVal(App("mem_"+leaves[0].Sort, SBool, Select(h, sv.L[0]), sv.L[1], sv.L[2], x.L[0]))
		case "iface":
			// iface(x): x boxed into an interface value (dynamic type = static type of x)
			v := e.eval(t.Args[0])
			if _, ok := v.T.Underlying().(*types.Interface); ok {
				return v
			}
			return c.makeInterface(v, v.T, types.NewInterfaceType(nil, nil))
		case "prev":
			// prev(x): at a loop's back edge, the value x had at the loop header of this iteration
			id2, ok := t.Args[0].(*ast.Ident)
			if !ok || e.header == nil {
				panic(specErr("prev(x) is only available at loop ends"))
			}
			v, ok := e.header(id2.Name)
			if !ok {
				panic(specErr("prev: unknown loop variable %s", id2.Name))
			}
			return v
		case "objof":
			v := e.eval(t.Args[0])
			if _, ok := v.T.Underlying().(*types.Interface); ok {
				return intVal(v.L[1])
			}
			return intVal(v.L[0])
		case "idxof":
			v := e.eval(t.Args[0])
			return intVal(v.L[1])
		case "alloc":
			return intVal(c.get(e.cur, "$alloc", SInt))
		case "int", "int64", "int32", "uint", "uint64", "rune", "byte", "uint8", "int8", "int16", "uint16", "uint32":
			v := e.eval(t.Args[0])
			return Val{T: types.Universe.Lookup(id.Name).Type(), L: v.L}
		case "string":
			v := e.eval(t.Args[0])
			if isString(v.T) {
				return Val{T: types.Typ[types.String], L: v.L}
			}
		case "uf":
			// uf("name", sort, args...) : uninterpreted function application (Int/Bool/Str args by leaf)
			return e.evalUF(t)
		}
		if fv, ok := e.resolveIdent(id.Name); ok {
			if sig, ok := fv.T.Underlying().(*types.Signature); ok {
				args := make([]Val, len(t.Args))
				for i, a := range t.Args {
					args[i] = e.eval(a)
				}
				res := c.applyFuncTerm(fv, sig, args)
				if len(res) != 1 {
					panic(specErr("function value %s must have one result", id.Name))
				}
				return res[0]
			}
		}
		if sf, ok := c.eng.spec.Fns[id.Name]; ok {
			args := make([]Val, len(t.Args))
			for i, a := range t.Args {
				args[i] = e.eval(a)
			}
			return e.callSpecFn(sf, args)
		}
		// conversion to a named type of the package
		if e.pkg != nil {
			if tn, ok := e.pkg.Scope().Lookup(id.Name).(*types.TypeName); ok && len(t.Args) == 1 {
				v := e.eval(t.Args[0])
				return Val{T: tn.Type(), L: v.L, Root: v.Root, Base: v.Base}
			}
		}
		panic(specErr("unknown function %s in spec", id.Name))
	}
	if sel, ok := t.Fun.(*ast.SelectorExpr); ok {
		// pkg.Type(x) conversion
		if id, ok := sel.X.(*ast.Ident); ok {
			if p := c.eng.findPkgByName(e.pkg, id.Name); p != nil {
				if tn, ok := p.Scope().Lookup(sel.Sel.Name).(*types.TypeName); ok && len(t.Args) == 1 {
					v := e.eval(t.Args[0])
					return Val{T: tn.Type(), L: v.L}
				}
			}
		}
	}
	panic(specErr("unsupported call %s", exprString(t)))
}

// evalUF: uf("name", "Sort", args...) applies an uninterpreted function to the leaves of the args.
func (e *Env) evalUF(t *ast.CallExpr) Val {
	c := e.c
	name, _ := strconv.Unquote(t.Args[0].(*ast.BasicLit).Value)
	srt, _ := strconv.Unquote(t.Args[1].(*ast.BasicLit).Value)
	var args []*Term
	var sorts []string
	for _, a := range t.Args[2:] {
		v := e.eval(a)
		for _, l := range v.L {
			args = append(args, l)
			sorts = append(sorts, l.S)
		}
	}
	if name != "byte2str" && name != "rune2str" && name != "bytes2str" {
		c.decls.Fun(name, sorts, srt)
	}
	var typ types.Type
	switch srt {
	case SInt:
		typ = types.Typ[types.Int]
	case SBool:
		typ = types.Typ[types.Bool]
	case SStr:
		typ = types.Typ[types.String]
	default:
		panic(specErr("uf sort %s", srt))
	}
	return Val{T: typ, L: []*Term{App(name, srt, args...)}}
}

func (e *Env) bindParams(ps []Param, args []Val, what string) map[string]Val {
	if len(ps) != len(args) {
		panic(specErr("%s: expected %d arguments, got %d", what, len(ps), len(args)))
	}
	m := map[string]Val{}
	for i, p := range ps {
		a := args[i]
		if p.Type != "" {
			pt := e.c.eng.resolveType(e.pkg, p.Type)
			a = e.coerce(a, pt)
			if len(leavesOf(pt)) != len(a.L) {
				panic(specErr("%s: argument %s has %d leaves, parameter type %s needs %d", what, p.Name, len(a.L), pt, len(leavesOf(pt))))
			}
			a.T = pt
			if a.IsPtr() && a.Root == nil {
				a.Root = elemType(pt)
			}
		}
		m[p.Name] = a
	}
	return m
}

func (e *Env) callSpecFn(sf *SpecFn, args []Val) Val {
	c := e.c
	if sf.Pkg != "" {
		if p := c.eng.typesPkg(sf.Pkg); p != nil && p != e.pkg {
			ne := *e
			ne.pkg = p
			e = &ne
		}
	}
	binds := e.bindParams(sf.Params, args, sf.Name)
	if !sf.Rec {
		env := &Env{c: c, vars: binds, cur: e.cur, old: e.old, pkg: e.pkg, guard: e.guard}
		v := env.eval(sf.Body)
		if sf.Ret != "" {
			rt := c.eng.resolveType(e.pkg, sf.Ret)
			v = e.coerce(v, rt)
			v.T = rt
		}
		return v
	}
	// recursive: uninterpreted function over the heap families it reads plus the argument leaves
	sig := c.recSignature(sf, e.pkg)
	var targs []*Term
	for _, f := range sig.fams {
		targs = append(targs, c.get(e.cur, f, c.famSort[f]))
	}
	for _, p := range sf.Params {
		targs = append(targs, binds[p.Name].L...)
	}
	rt := c.eng.resolveType(e.pkg, sf.Ret)
	rl := leavesOf(rt)
	if len(rl) != 1 {
		panic(specErr("spec rec %s must return a scalar", sf.Name))
	}
	app := App(sf.Name, rl[0].Sort, targs...)
	// fuel-1 unfolding of applications that stem from user clauses
	if c.inUnfold == 0 {
		key := app.String()
		if !c.unfolded[key] {
			c.unfolded[key] = true
			c.inUnfold++
			env := &Env{c: c, vars: binds, cur: e.cur, old: e.old, pkg: e.pkg, guard: e.guard}
			body := env.eval(sf.Body)
			c.inUnfold--
			c.addFact(Eq(app, body.term()))
		}
	}
	return Val{T: rt, L: []*Term{app}}
}

type recSig struct {
	fams []string
	// shallow: the body reads the heap only in rows of objects that are themselves arguments (slice / pointer / map
	// parameters), and recursive calls pass those objects on unchanged. Such a function depends on a heap family only
	// through those rows, which gives it a frame axiom (declareRec).
	shallow bool
}

func (c *FnCtx) recSignature(sf *SpecFn, pkg *types.Package) *recSig {
	if s, ok := c.eng.recSigs[sf.Name]; ok {
		// make sure the function is declared in this context
		c.declareRec(sf, s, pkg)
		return s
	}
	// discover the families read by evaluating the body once on dummy arguments
	c.eng.recSigs[sf.Name] = &recSig{} // provisional (recursive calls see the empty signature)
	sub := &FnCtx{eng: c.eng, name: "sig:" + sf.Name, decls: NewDecls(), famSort: map[string]string{}, lits: map[string]*Term{}, ordinals: map[string]int{}, unfolded: map[string]bool{}, loopW: map[string]map[string]bool{}, assumed: map[string]bool{}, pkg: pkg}
	sub.rec = true
	sub.inUnfold = 1
	st := &State{m: map[string]*Term{}, reach: TTrue}
	vars := map[string]Val{}
	for _, p := range sf.Params {
		pt := c.eng.resolveType(pkg, p.Type)
		vars[p.Name] = sub.freshVal(p.Name, pt)
	}
	env := &Env{c: sub, vars: vars, cur: st, old: st, pkg: pkg, guard: TTrue}
	bodyVal := env.eval(sf.Body)
	var fams []string
	for _, f := range sub.recFams {
		if !strings.HasPrefix(f, "$") {
			fams = append(fams, f)
		}
	}
	s := &recSig{fams: fams}
	for _, f := range fams {
		c.eng.recFamSorts[f] = sub.famSort[f]
	}
	// shallowness: every heap row read is the row of an object-valued argument
	objArg := map[string]bool{}
	for _, p := range sf.Params {
		pt := c.eng.resolveType(pkg, p.Type)
		for i, l := range leavesOf(pt) {
			if l.Role == "obj" || l.Role == "map" {
				objArg[vars[p.Name].L[i].Op] = true
			}
		}
	}
	famSet := map[string]bool{}
	for _, f := range fams {
		famSet[f+"@0"] = true
	}
	s.shallow = len(fams) > 0 && len(bodyVal.L) == 1
	if s.shallow {
		var terms []*Term
		terms = append(terms, bodyVal.L...) // side facts (well-formedness, map axioms) are not part of the definition
		for _, t := range terms {
			t.Walk(func(x *Term) {
				if x.Op == "select" && len(x.Args) == 2 && len(x.Args[0].Args) == 0 && famSet[x.Args[0].Op] {
					// a row of a heap family: the object must be an argument
					if o := x.Args[1]; len(o.Args) != 0 || !objArg[o.Op] {
						s.shallow = false
					}
				}
				if x.Op == sf.Name {
					// a recursive call (provisional signature: no family arguments): object arguments passed on as they are
					k := 0
					for _, p := range sf.Params {
						pt := c.eng.resolveType(pkg, p.Type)
						for i, l := range leavesOf(pt) {
							if (l.Role == "obj" || l.Role == "map") && k < len(x.Args) && x.Args[k].Op != vars[p.Name].L[i].Op {
								s.shallow = false
							}
							k++
						}
					}
				}
				// a family used other than row-wise (passed whole to something else) defeats the argument
				for _, a := range x.Args {
					if len(a.Args) == 0 && famSet[a.Op] && !(x.Op == "select" && a == x.Args[0]) {
						s.shallow = false
					}
				}
			})
		}
	}
	if os.Getenv("VCGO_DEBUG_REC") != "" {
		fmt.Fprintf(os.Stderr, "rec %s: fams=%v shallow=%v body=%s\n", sf.Name, fams, s.shallow, bodyVal.L[0])
	}
	c.eng.recSigs[sf.Name] = s
	c.declareRec(sf, s, pkg)
	return s
}

func (c *FnCtx) declareRec(sf *SpecFn, s *recSig, pkg *types.Package) {
	var sorts []string
	for _, f := range s.fams {
		srt := c.eng.recFamSorts[f]
		c.famSort[f] = srt
		sorts = append(sorts, srt)
	}
	for _, p := range sf.Params {
		for _, l := range leavesOf(c.eng.resolveType(pkg, p.Type)) {
			sorts = append(sorts, l.Sort)
		}
	}
	rt := c.eng.resolveType(pkg, sf.Ret)
	c.decls.Fun(sf.Name, sorts, leavesOf(rt)[0].Sort)
	if !s.shallow || c.rec {
		return
	}
	if c.recFrame == nil {
		c.recFrame = map[string]bool{}
	}
	if c.recFrame[sf.Name] {
		return
	}
	c.recFrame[sf.Name] = true
	// frame axiom: two heaps that agree on the rows of the object arguments give the same value
	var fa, fb, ps, objs []*Term
	for i, f := range s.fams {
		fa = append(fa, Var(fmt.Sprintf("F!a%d", i), c.eng.recFamSorts[f]))
		fb = append(fb, Var(fmt.Sprintf("F!b%d", i), c.eng.recFamSorts[f]))
	}
	k := 0
	for _, p := range sf.Params {
		for _, l := range leavesOf(c.eng.resolveType(pkg, p.Type)) {
			v := Var(fmt.Sprintf("a!r%d", k), l.Sort)
			ps = append(ps, v)
			if l.Role == "obj" || l.Role == "map" {
				objs = append(objs, v)
			}
			k++
		}
	}
	var prem []*Term
	for i := range s.fams {
		for _, o := range objs {
			prem = append(prem, Eq(Select(fa[i], o), Select(fb[i], o)))
		}
	}
	rs := leavesOf(rt)[0].Sort
	appA := App(sf.Name, rs, append(append([]*Term{}, fa...), ps...)...)
	appB := App(sf.Name, rs, append(append([]*Term{}, fb...), ps...)...)
	bound := append(append(append([]*Term{}, fa...), fb...), ps...)
	saved := c.bound
	c.bound = nil
	c.addFact(Forall(bound, Imp(And(prem...), Eq(appA, appB)), []*Term{appA, appB}))
	c.bound = saved
	c.assumed["rec-frame:"+sf.Name+" depends on the heap only through the rows of its object arguments (checked syntactically on its body)"] = true
}

// freshVal creates an unconstrained symbolic value of type t.
func (c *FnCtx) freshVal(name string, t types.Type) Val {
	ls := leavesOf(t)
	v := Val{T: t, L: make([]*Term, len(ls))}
	for i, l := range ls {
		n := name
		if l.Path != "" {
			n += "." + l.Path
		}
		v.L[i] = c.fresh(n, l.Sort)
	}
	if p, ok := t.Underlying().(*types.Pointer); ok {
		v.Root = p.Elem()
	}
	return v
}

// ---- strings ----

func (c *FnCtx) sLen(s *Term) *Term {
	return App("slen", SInt, s)
}
func (c *FnCtx) sSub(s, i, j *Term) *Term {
	return App("ssub", SStr, s, i, j)
}
// sCat builds a concatenation in canonical form: right-nested, without empty operands. Concatenation is associative
// with the empty string as identity, and the solver has no such axioms (they would loop under E-matching), so the
// normal form is what lets (a + b) + c and a + (b + c) be the same term.
func (c *FnCtx) sCat(a, b *Term) *Term {
	if a.Op == "sempty" && len(a.Args) == 0 {
		return b
	}
	if b.Op == "sempty" && len(b.Args) == 0 {
		return a
	}
	if a.Op == "scat" && len(a.Args) == 2 {
		return c.sCat(a.Args[0], c.sCat(a.Args[1], b))
	}
	return App("scat", SStr, a, b)
}
func (c *FnCtx) sAt(s, i *Term) *Term {
	return App("sat", SInt, s, i)
}

func (c *FnCtx) mapLen(st *State, m Val) *Term {
	mt := m.T.Underlying().(*types.Map)
	ks := mapKeySort(mt)
	c.decls.Fun("maplen_"+ks, []string{ArrS(ks, SBool)}, SInt)
	has := c.get(st, mapFam(mt, "has"), ArrS(SInt, ArrS(ks, SBool)))
	n := App("maplen_"+ks, SInt, Select(has, m.L[0]))
	c.addFact(Ge(n, IntT(0)))
	return n
}

// indexOffsets inspects the index arguments of select terms mentioning the bound variable k. An index that is
// a sum in which k occurs exactly once as a bare summand contributes OFF = the sum of the other summands.
// Returns the distinct non-zero OFFs (at most 3); nil if some index is the bare k (plain pattern exists already
// for that array; other arrays still get their copies).
func indexOffsets(t *Term, k string) []*Term {
	var offs []*Term
	seen := map[string]bool{}
	var walk func(x *Term)
	walk = func(x *Term) {
		if x.Op == "select" && len(x.Args) == 2 && mentionsAny(x.Args[1], []string{k}) {
			if off := splitOffset(x.Args[1], k); off != nil {
				key := off.String()
				if !seen[key] && len(offs) < 3 {
					seen[key] = true
					offs = append(offs, off)
				}
			}
		}
		for _, a := range x.Args {
			walk(a)
		}
	}
	walk(t)
	return offs
}

// splitOffset: idx == OFF + k with k bare and OFF k-free -> OFF (nil otherwise or when OFF is empty).
func splitOffset(idx *Term, k string) *Term {
	var summands []*Term
	var flat func(x *Term)
	flat = func(x *Term) {
		if x.Op == "+" && len(x.Args) >= 2 {
			for _, a := range x.Args {
				flat(a)
			}
			return
		}
		summands = append(summands, x)
	}
	flat(idx)
	nk := 0
	var rest []*Term
	for _, sm := range summands {
		if len(sm.Args) == 0 && sm.Op == k {
			nk++
			continue
		}
		if mentionsAny(sm, []string{k}) {
			return nil
		}
		rest = append(rest, sm)
	}
	if nk != 1 || len(rest) == 0 {
		return nil
	}
	off := rest[0]
	for _, r := range rest[1:] {
		off = Add(off, r)
	}
	return off
}

// reindex rewrites t for a = off + k: index sums equal to off+k become a, every other k becomes (a - off).
func reindex(t *Term, k string, off *Term, a *Term) *Term {
	offS := off.String()
	var rec func(x *Term) *Term
	rec = func(x *Term) *Term {
		if len(x.Args) == 0 && x.Bound == nil {
			if x.Op == k {
				return Sub(a, off)
			}
			return x
		}
		if x.Op == "+" {
			if o := splitOffset(x, k); o != nil && o.String() == offS {
				return a
			}
		}
		n := &Term{Op: x.Op, S: x.S, Bound: x.Bound}
		for _, y := range x.Args {
			n.Args = append(n.Args, rec(y))
		}
		for _, p := range x.Pats {
			var np []*Term
			for _, y := range p {
				np = append(np, rec(y))
			}
			n.Pats = append(n.Pats, np)
		}
		return n
	}
	return rec(t)
}


func constInt(x ast.Expr) (int, bool) {
	if bl, ok := x.(*ast.BasicLit); ok && bl.Kind == token.INT {
		n, err := strconv.Atoi(bl.Value)
		return n, err == nil
	}
	return 0, false
}
