package main

import (
	"fmt"
	"go/types"
	"strings"
)

const repoModule = "github.com/alecthomas/participle/v2"

// Leaf is one scalar component of a flattened Go value.
type Leaf struct {
	Path string     // e.g. "Checkpoint.rawCursor" or "tokens.len"
	Sort string     // Int / Bool / Str
	T    types.Type // Go type of the component that owns the leaf (for ref leaves: the pointer/slice/map type)
	Role string     // "", "obj", "idx", "off", "len", "cap", "tag", "map", "fn", "opaque", "float"
}

// transparentForeign lists foreign struct types whose fields we look into.
var transparentForeign = map[string]bool{
	"text/scanner.Position": true,
	"reflect.StructField":   true,
}

func isOpaqueNamed(t types.Type) bool {
	n, ok := t.(*types.Named)
	if !ok {
		return false
	}
	if _, ok := n.Underlying().(*types.Struct); !ok {
		return false
	}
	obj := n.Obj()
	if obj.Pkg() == nil {
		return false
	}
	p := obj.Pkg().Path()
	if strings.HasPrefix(p, repoModule) || p == "vcgo/gen" || strings.HasPrefix(p, "gen") {
		return false
	}
	return !transparentForeign[p+"."+obj.Name()]
}

var leafCache = map[string][]Leaf{}

func typeKey(t types.Type) string {
	return types.TypeString(t, func(p *types.Package) string { return p.Path() })
}

// leavesOf flattens a Go type into scalar leaves.
func leavesOf(t types.Type) []Leaf {
	k := typeKey(t)
	if l, ok := leafCache[k]; ok {
		return l
	}
	l := leavesOf1(t)
	leafCache[k] = l
	return l
}

func leavesOf1(t types.Type) []Leaf {
	if isOpaqueNamed(t) {
		return []Leaf{{Path: "", Sort: SInt, T: t, Role: "opaque"}}
	}
	switch u := t.Underlying().(type) {
	case *types.Basic:
		switch {
		case u.Info()&types.IsBoolean != 0:
			return []Leaf{{Sort: SBool, T: t}}
		case u.Info()&types.IsString != 0:
			return []Leaf{{Sort: SStr, T: t}}
		case u.Info()&types.IsInteger != 0:
			return []Leaf{{Sort: SInt, T: t}}
		case u.Info()&types.IsFloat != 0, u.Info()&types.IsComplex != 0:
			return []Leaf{{Sort: SInt, T: t, Role: "float"}}
		case u.Kind() == types.UnsafePointer:
			return []Leaf{{Sort: SInt, T: t, Role: "opaque"}}
		case u.Kind() == types.UntypedNil:
			return []Leaf{{Sort: SInt, T: t, Role: "opaque"}}
		}
	case *types.Pointer:
		return []Leaf{{Path: "obj", Sort: SInt, T: t, Role: "obj"}, {Path: "idx", Sort: SInt, T: t, Role: "idx"}}
	case *types.Slice:
		return []Leaf{
			{Path: "obj", Sort: SInt, T: t, Role: "obj"}, {Path: "off", Sort: SInt, T: t, Role: "off"},
			{Path: "len", Sort: SInt, T: t, Role: "len"}, {Path: "cap", Sort: SInt, T: t, Role: "cap"}}
	case *types.Map:
		return []Leaf{{Path: "map", Sort: SInt, T: t, Role: "map"}}
	case *types.Chan:
		return []Leaf{{Path: "chan", Sort: SInt, T: t, Role: "opaque"}}
	case *types.Signature:
		return []Leaf{{Path: "fn", Sort: SInt, T: t, Role: "fn"}}
	case *types.Interface:
		return []Leaf{{Path: "tag", Sort: SInt, T: t, Role: "tag"}, {Path: "obj", Sort: SInt, T: t, Role: "obj"}, {Path: "idx", Sort: SInt, T: t, Role: "idx"}}
	case *types.TypeParam:
		return []Leaf{{Path: "tparam", Sort: SInt, T: t, Role: "opaque"}}
	case *types.Struct:
		var out []Leaf
		for i := 0; i < u.NumFields(); i++ {
			f := u.Field(i)
			for _, l := range leavesOf(f.Type()) {
				p := f.Name()
				if l.Path != "" {
					p += "." + l.Path
				}
				l.Path = p
				out = append(out, l)
			}
		}
		if len(out) == 0 {
			// empty struct: keep one dummy leaf so that boxes have something
			return []Leaf{}
		}
		return out
	case *types.Array:
		var out []Leaf
		el := leavesOf(u.Elem())
		for i := int64(0); i < u.Len(); i++ {
			for _, l := range el {
				l.Path = fmt.Sprintf("[%d].%s", i, l.Path)
				out = append(out, l)
			}
		}
		return out
	case *types.Tuple:
		var out []Leaf
		for i := 0; i < u.Len(); i++ {
			for _, l := range leavesOf(u.At(i).Type()) {
				l.Path = fmt.Sprintf("#%d.%s", i, l.Path)
				out = append(out, l)
			}
		}
		return out
	}
	panic(unsupported("type " + t.String()))
}

// fieldOffset returns the leaf offset of field i inside struct type st.
func fieldOffset(st *types.Struct, i int) int {
	off := 0
	for j := 0; j < i; j++ {
		off += len(leavesOf(st.Field(j).Type()))
	}
	return off
}

// rootKey names the heap family for allocations whose element type is t.
func rootKey(t types.Type) string {
	s := types.TypeString(t, func(p *types.Package) string { return p.Name() })
	r := strings.NewReplacer("*", "P_", "[]", "S_", "[", "_", "]", "_", ".", "_", " ", "", "{", "_", "}", "_", ";", "_", "(", "_", ")", "_", ",", "_", "/", "_")
	s = r.Replace(s)
	// struct tags and other punctuation of unnamed types
	var sb strings.Builder
	for _, ch := range s {
		if ch == '_' || ch >= '0' && ch <= '9' || ch >= 'a' && ch <= 'z' || ch >= 'A' && ch <= 'Z' {
			sb.WriteRune(ch)
		} else {
			fmt.Fprintf(&sb, "_%x_", ch)
		}
	}
	return sb.String()
}

type unsupported string

func (u unsupported) Error() string { return "unsupported: " + string(u) }

// Val is a symbolic Go value: leaves plus static info.
type Val struct {
	T types.Type
	L []*Term
	// Pointers: heap family root type and leaf base.
	Root types.Type
	Base int
	// Interfaces made from a pointer at a known site: the static type of that pointer (for modifies pointee(x)).
	Dyn types.Type
	// Closures / static function values.
	Fn       interface{} // *ssa.Function
	Bindings []Val
}

func (v Val) IsPtr() bool {
	_, ok := v.T.Underlying().(*types.Pointer)
	return ok
}

func elemType(t types.Type) types.Type {
	switch u := t.Underlying().(type) {
	case *types.Pointer:
		return u.Elem()
	case *types.Slice:
		return u.Elem()
	case *types.Array:
		return u.Elem()
	case *types.Map:
		return u.Elem()
	}
	panic("elemType of " + t.String())
}

func zeroLeaf(l Leaf) *Term {
	switch l.Sort {
	case SInt:
		return IntT(0)
	case SBool:
		return TFalse
	case SStr:
		return Var("sempty", SStr)
	}
	panic("zeroLeaf")
}

func zeroVal(t types.Type) Val {
	ls := leavesOf(t)
	v := Val{T: t, L: make([]*Term, len(ls))}
	for i, l := range ls {
		v.L[i] = zeroLeaf(l)
	}
	if p, ok := t.Underlying().(*types.Pointer); ok {
		v.Root = p.Elem()
	}
	return v
}

// sub extracts the component [off, off+n) typed t from a struct value.
func (v Val) sub(off int, t types.Type) Val {
	n := len(leavesOf(t))
	r := Val{T: t, L: v.L[off : off+n : off+n]}
	if p, ok := t.Underlying().(*types.Pointer); ok {
		r.Root = p.Elem()
	}
	return r
}

func valEq(a, b Val) *Term {
	if len(a.L) != len(b.L) {
		panic(fmt.Sprintf("valEq: leaf mismatch %s vs %s", a.T, b.T))
	}
	var cs []*Term
	for i := range a.L {
		cs = append(cs, Eq(a.L[i], b.L[i]))
	}
	return And(cs...)
}
