package main

import (
	"os"
	"fmt"
	"go/ast"
	"go/types"
	"strings"

	"golang.org/x/tools/go/ssa"
)

// ---- interfaces ----

func isPointerLike(t types.Type) bool {
	switch t.Underlying().(type) {
	case *types.Pointer:
		return true
	}
	return false
}

func (c *FnCtx) makeInterface(v Val, from types.Type, to types.Type) Val {
	tag := IntT(int64(c.eng.typeTag(from)))
	if isPointerLike(from) {
		if _, ok := v.Fn.(*localRef); ok {
			panic(unsupported("interface holding pointer to promoted local"))
		}
		return Val{T: to, L: []*Term{tag, v.L[0], v.L[1]}, Root: v.Root, Base: v.Base, Dyn: from}
	}
	// value types are boxed by an injective uninterpreted function of their leaves
	ls := leavesOf(from)
	if len(ls) == 0 {
		return Val{T: to, L: []*Term{tag, IntT(1), IntT(0)}}
	}
	name := "box_" + rootKey(from)
	var sorts []string
	for _, l := range ls {
		sorts = append(sorts, l.Sort)
	}
	c.decls.Fun(name, sorts, SInt)
	box := App(name, SInt, v.L...)
	for i, l := range ls {
		un := fmt.Sprintf("unbox_%s_%d", rootKey(from), i)
		c.decls.Fun(un, []string{SInt}, l.Sort)
		c.addFact(Eq(App(un, l.Sort, box), v.L[i]))
	}
	c.addFact(Gt(box, IntT(0)))
	return Val{T: to, L: []*Term{tag, box, IntT(0)}}
}

func (c *FnCtx) unbox(x Val, to types.Type) Val {
	if isPointerLike(to) {
		return mkPtr(to, elemType(to), 0, x.L[1], x.L[2])
	}
	ls := leavesOf(to)
	out := Val{T: to, L: make([]*Term, len(ls))}
	for i, l := range ls {
		un := fmt.Sprintf("unbox_%s_%d", rootKey(to), i)
		c.decls.Fun(un, []string{SInt}, l.Sort)
		out.L[i] = App(un, l.Sort, x.L[1])
	}
	return out
}

func (c *FnCtx) ifaceEq(x, y Val) *Term {
	if len(x.L) == 0 {
		return Eq(y.L[0], IntT(0))
	}
	if len(y.L) == 0 {
		return Eq(x.L[0], IntT(0))
	}
	return And(Eq(x.L[0], y.L[0]), Eq(x.L[1], y.L[1]), Eq(x.L[2], y.L[2]))
}

// implementsTerm: does the dynamic type with this tag implement interface iface?
func (c *FnCtx) implementsTerm(tag *Term, iface types.Type) *Term {
	it, ok := iface.Underlying().(*types.Interface)
	if !ok {
		return Eq(tag, IntT(int64(c.eng.typeTag(iface))))
	}
	name := "impl_" + rootKey(iface)
	c.decls.Fun(name, []string{SInt}, SBool)
	// facts for all known concrete types
	for _, kt := range c.eng.knownTypes() {
		if mentionsTypeParam(kt) {
			continue // unknown until instantiated: leave uninterpreted
		}
		id := c.eng.typeTag(kt)
		c.addFact(Eq(App(name, SBool, IntT(int64(id))), BoolT(types.Implements(kt, it))))
	}
	c.addFact(Not(App(name, SBool, IntT(0))))
	return App(name, SBool, tag)
}

func (f *frame) typeAssert(t *ssa.TypeAssert, st *State) {
	c := f.c
	x := f.val(t.X)
	var ok *Term
	var v Val
	if ai, isI := t.AssertedType.Underlying().(*types.Interface); isI {
		if xi, fromI := t.X.Type().Underlying().(*types.Interface); fromI && types.Implements(xi, ai) {
			// the static interface type already guarantees the methods (a bound method value of an interface, say):
			// the assertion succeeds exactly when the value is not nil
			ok = Not(Eq(x.L[0], IntT(0)))
		} else {
			ok = c.implementsTerm(x.L[0], t.AssertedType)
		}
		v = Val{T: t.AssertedType, L: x.L}
	} else {
		ok = Eq(x.L[0], IntT(int64(c.eng.typeTag(t.AssertedType))))
		v = c.unbox(x, t.AssertedType)
	}
	if t.CommaOk {
		// on failure the value is the zero value
		z := zeroVal(t.AssertedType)
		r := Val{T: v.T, L: make([]*Term, len(v.L)), Root: v.Root, Base: v.Base}
		for i := range v.L {
			r.L[i] = Ite(ok, v.L[i], z.L[i])
		}
		f.tuples[t] = []Val{r, boolVal(ok)}
		return
	}
	c.oblige("typeassert", "", c.tags, st.reach, ok, f.pos(t.Pos()), "type assertion to "+t.AssertedType.String()+" succeeds")
	f.vals[t] = v
}

// ---- calls ----

func fnKey(fn *ssa.Function) string {
	if fn.Pkg == nil {
		// instantiated generics or synthetic
		if o := fn.Origin(); o != nil && o.Pkg != nil {
			return o.Pkg.Pkg.Path() + "::" + o.RelString(o.Pkg.Pkg)
		}
		return fn.String()
	}
	return fn.Pkg.Pkg.Path() + "::" + fn.RelString(fn.Pkg.Pkg)
}

// shortKey names a function with package names instead of paths: strings.Count, (*regexp.Regexp).FindString
func shortKey(fn *ssa.Function) string {
	s := fn.String()
	// replace each import path by its last element
	if fn.Pkg != nil {
		s = strings.ReplaceAll(s, fn.Pkg.Pkg.Path(), fn.Pkg.Pkg.Name())
	} else if o := fn.Origin(); o != nil && o.Pkg != nil {
		s = strings.ReplaceAll(s, o.Pkg.Pkg.Path(), o.Pkg.Pkg.Name())
	}
	// any remaining slashes: keep last path element
	for {
		i := strings.LastIndex(s, "/")
		if i < 0 {
			break
		}
		j := i
		for j > 0 && (isIdentChar(s[j-1]) || s[j-1] == '/' || s[j-1] == '.' || s[j-1] == '-') && s[j-1] != '(' && s[j-1] != '*' {
			j--
		}
		s = s[:j] + s[i+1:]
	}
	return s
}

func isIdentChar(b byte) bool {
	return b == '_' || (b >= 'a' && b <= 'z') || (b >= 'A' && b <= 'Z') || (b >= '0' && b <= '9')
}

func (eng *Engine) specFor(fn *ssa.Function) *FuncSpec {
	if fs, ok := eng.spec.Funcs[fnKey(fn)]; ok {
		return fs
	}
	if fs, ok := eng.spec.Funcs["stub:"+shortKey(fn)]; ok {
		return fs
	}
	return nil
}

func (f *frame) call(t *ssa.Call, st *State) {
	res := f.doCall(&t.Call, t, st)
	sig := t.Call.Signature()
	switch sig.Results().Len() {
	case 0:
	case 1:
		f.vals[t] = res[0]
	default:
		f.tuples[t] = res
	}
}

func (f *frame) doCall(common *ssa.CallCommon, instr ssa.Instruction, st *State) []Val {
	c := f.c
	pos := f.pos(instr.Pos())
	sig := common.Signature()
	var args []Val
	if common.IsInvoke() {
		recv := f.val(common.Value)
		args = append(args, recv)
		for _, a := range common.Args {
			args = append(args, f.val(a))
		}
		return f.invoke(common, recv, args, st, pos)
	}
	for i, a := range common.Args {
		v := f.val(a)
		// coerce nil constants to parameter types
		var pt types.Type
		if sig.Recv() != nil {
			if i == 0 {
				pt = sig.Recv().Type()
			} else if i-1 < sig.Params().Len() {
				pt = sig.Params().At(i - 1).Type()
			}
		} else if i < sig.Params().Len() {
			pt = sig.Params().At(i).Type()
		}
		if pt != nil {
			v = c.coerceTo(v, pt)
		}
		args = append(args, v)
	}
	if b, ok := common.Value.(*ssa.Builtin); ok {
		return f.builtin(b, common, args, st, instr)
	}
	callee := common.StaticCallee()
	var bindings []Val
	if callee == nil {
		fv := f.val(common.Value)
		if fn, ok := fv.Fn.(*ssa.Function); ok {
			callee = fn
			bindings = fv.Bindings
		} else {
			return f.callUnknownFunc(fv, sig, args, st, pos)
		}
	} else if mc, ok := common.Value.(*ssa.MakeClosure); ok {
		for _, b := range mc.Bindings {
			bindings = append(bindings, f.val(b))
		}
	}
	return f.callStatic(callee, bindings, args, st, pos)
}

func (f *frame) callOrdinal(name string) int {
	f.callOrd[name]++
	return f.callOrd[name]
}

func (f *frame) callStatic(callee *ssa.Function, bindings []Val, args []Val, st *State, pos string) []Val {
	sk := shortKey(callee)
	// the instantiation suffix of a generic callee is not part of its name in contracts: (*participle.Parser[G]).parse[G]
	if i := strings.LastIndex(sk, "["); i > 0 && strings.HasSuffix(sk, "]") && !strings.Contains(sk[i:], ")") {
		sk = sk[:i]
	}
	ord := f.callOrdinal(sk)
	res := f.callStatic1(callee, bindings, args, st, pos, sk, ord)
	f.afterCallLets(sk, ord, args, res, st)
	return res
}

// afterCallLets fixes the local ghosts declared with "let name = expr after call sk#ord".
func (f *frame) afterCallLets(sk string, ord int, args, res []Val, st *State) {
	if f.spec == nil || !f.top {
		return
	}
	for _, a := range f.spec.Asserts {
		if a.Callee != sk || a.Ordinal != ord || !a.After || !a.Assume {
			continue
		}
		f.c.hookHits[fmt.Sprintf("call %s#%d", sk, ord)] = true
		env := f.hereEnv(st)
		for i := range args {
			env.vars[fmt.Sprintf("arg%d", i)] = args[i]
		}
		for i := range res {
			env.vars[fmt.Sprintf("result%d", i)] = res[i]
		}
		f.c.assume(st.reach, env.evalBool(a.Expr))
		f.c.assumed["assumed after call "+sk+": "+a.Src] = true
	}
	for _, l := range f.spec.Lets {
		if l.Callee != sk || l.Ordinal != ord {
			continue
		}
		f.c.hookHits[fmt.Sprintf("call %s#%d", sk, ord)] = true
		env := f.hereEnv(st)
		for i := range args {
			env.vars[fmt.Sprintf("arg%d", i)] = args[i]
		}
		for i := range res {
			env.vars[fmt.Sprintf("result%d", i)] = res[i]
		}
		v := env.eval(l.Expr)
		if old, ok := f.c.ghosts[l.Name]; ok && len(old.L) == len(v.L) {
			// path-exact: the new value where this call site was passed, the previous one elsewhere
			v.T = old.T
			w := Val{T: v.T, L: make([]*Term, len(v.L)), Root: v.Root, Base: v.Base}
			for i := range v.L {
				w.L[i] = Ite(st.reach, v.L[i], old.L[i])
			}
			v = w
		}
		f.c.ghosts[l.Name] = v
		f.c.ghostBlk[l.Name] = f.curBlock
	}
}

func (f *frame) callStatic1(callee *ssa.Function, bindings []Val, args []Val, st *State, pos string, sk string, ord int) []Val {
	c := f.c
	eng := c.eng
	var pnames []string
	for _, p := range callee.Params {
		pnames = append(pnames, p.Name())
	}
	f.callSiteHooks(sk, ord, args, pnames, st, pos)
	f.useHints(fmt.Sprintf("call %s#%d", sk, ord), f.hereEnv(st))
	fs := eng.specFor(callee)
	if fs != nil && !fs.Inline {
		if fs.Trusted {
			c.assumed["stub:"+sk] = true
		} else {
			c.assumed["contract:"+fnKey(callee)] = true
		}
		return f.applyContract(fs, callee, nil, args, st, pos, sk)
	}
	inRepo := callee.Pkg != nil && strings.HasPrefix(callee.Pkg.Pkg.Path(), repoModule) || strings.HasPrefix(fnKey(callee), "gen")
	if callee.Pkg == nil && callee.Origin() != nil && callee.Origin().Pkg != nil {
		inRepo = strings.HasPrefix(callee.Origin().Pkg.Pkg.Path(), repoModule)
	}
	if callee.Parent() != nil {
		inRepo = true // closures of functions under verification
	}
	if inRepo && len(callee.Blocks) > 0 {
		return f.inline(callee, fs, bindings, args, st)
	}
	// foreign function without stub: result havoc, heap unchanged
	c.assumed["assumed-pure:"+sk] = true
	if r := f.pureUF(callee.Signature, sk, args); r != nil {
		return r
	}
	return f.havocResults(callee.Signature, sk, st)
}

// functionResults: results of a "function" stub = uninterpreted functions fn_<name>_r<i> of all argument leaves.
// Specs can refer to them with uf("fn_<name>_r<i>", sort, args...).
func (c *FnCtx) functionResults(sig *types.Signature, name string, args []Val) []Val {
	var targs []*Term
	var sorts []string
	for _, a := range args {
		for _, l := range a.L {
			targs = append(targs, l)
			sorts = append(sorts, l.S)
		}
	}
	var out []Val
	for i := 0; i < sig.Results().Len(); i++ {
		rt := sig.Results().At(i).Type()
		ls := leavesOf(rt)
		v := Val{T: rt, L: make([]*Term, len(ls))}
		for j, l := range ls {
			fn := fmt.Sprintf("fn_%s_r%d", sanitize(name), i)
			if len(ls) > 1 {
				fn += fmt.Sprintf("_%d", j)
			}
			if len(targs) == 0 {
				v.L[j] = c.decls.Const(fn, l.Sort)
			} else {
				c.decls.Fun(fn, sorts, l.Sort)
				v.L[j] = App(fn, l.Sort, targs...)
			}
		}
		if p, ok := rt.Underlying().(*types.Pointer); ok {
			v.Root = p.Elem()
		}
		out = append(out, v)
	}
	return out
}

// pureUF models a foreign function without stub whose arguments and results are all plain scalars
// (integers, booleans, strings) as a deterministic uninterpreted function of its arguments.
func (f *frame) pureUF(sig *types.Signature, name string, args []Val) []Val {
	c := f.c
	scalar := func(t types.Type) bool {
		for _, l := range leavesOf(t) {
			if l.Role != "" {
				return false
			}
		}
		return true
	}
	var targs []*Term
	var sorts []string
	for _, a := range args {
		if !scalar(a.T) {
			return nil
		}
		for _, l := range a.L {
			targs = append(targs, l)
			sorts = append(sorts, l.S)
		}
	}
	if sig.Results().Len() == 0 {
		return nil
	}
	var out []Val
	for i := 0; i < sig.Results().Len(); i++ {
		rt := sig.Results().At(i).Type()
		if !scalar(rt) {
			return nil
		}
		ls := leavesOf(rt)
		v := Val{T: rt, L: make([]*Term, len(ls))}
		for j, l := range ls {
			fn := fmt.Sprintf("ext_%s_r%d", sanitize(name), i)
			if len(ls) > 1 {
				fn += fmt.Sprintf("_%d", j)
			}
			if len(targs) == 0 {
				v.L[j] = c.decls.Const(fn, l.Sort)
			} else {
				c.decls.Fun(fn, sorts, l.Sort)
				v.L[j] = App(fn, l.Sort, targs...)
			}
		}
		out = append(out, v)
	}
	return out
}

func (f *frame) havocResults(sig *types.Signature, name string, st *State) []Val {
	c := f.c
	var out []Val
	for i := 0; i < sig.Results().Len(); i++ {
		v := c.freshVal(fmt.Sprintf("%s.r%d", name, i), sig.Results().At(i).Type())
		c.wellFormed(st.reach, v, st)
		out = append(out, v)
	}
	return out
}

func (f *frame) inline(callee *ssa.Function, fs *FuncSpec, bindings []Val, args []Val, st *State) []Val {
	c := f.c
	f.ncalls++
	sub := &frame{c: c, fn: callee, spec: fs, bindings: bindings, prefix: fmt.Sprintf("%s%s_%d.", f.prefix, sanitize(callee.Name()), f.ncalls), inherit: append([]string(nil), c.active...)}
	c.depth++
	savedActive := c.active
	rets := sub.run(args, st)
	c.active = savedActive
	c.depth--
	// merge normal returns
	var es []edge
	var results [][]Val
	for _, r := range rets {
		if r.panics {
			continue
		}
		es = append(es, edge{cond: r.cond, st: r.st})
		results = append(results, r.results)
	}
	if len(es) == 0 {
		// callee never returns normally
		st.reach = TFalse
		return f.havocResults(callee.Signature, callee.Name(), st)
	}
	merged := c.mergeStates(es)
	st.m = merged.m
	st.reach = merged.reach
	var out []Val
	for i := 0; i < callee.Signature.Results().Len(); i++ {
		var vs []Val
		for _, r := range results {
			vs = append(vs, c.coerceTo(r[i], callee.Signature.Results().At(i).Type()))
		}
		out = append(out, c.mergeVals(vs, es, callee.Signature.Results().At(i).Type(), callee.Name()+".ret"))
	}
	return out
}

// callEnv builds the environment binding callee parameter names to arguments (and results).
func (f *frame) callEnv(callee *ssa.Function, fs *FuncSpec, args []Val, results []Val, cur, old *State) *Env {
	c := f.c
	vars := map[string]Val{}
	var pkg *types.Package
	if callee != nil {
		for i, p := range callee.Params {
			if i < len(args) {
				vars[p.Name()] = args[i]
			}
		}
		if p := pkgOf(callee); p != nil {
			pkg = p
		}
		sig := callee.Signature
		for i := 0; i < sig.Results().Len() && i < len(results); i++ {
			if n := sig.Results().At(i).Name(); n != "" && n != "_" {
				vars[n] = results[i]
			}
		}
	}
	if fs != nil && len(fs.Params) > 0 {
		for i, p := range fs.Params {
			if i < len(args) {
				a := args[i]
				// the receiver of a method answering to an interface contract is seen as the interface value
				if i == 0 && fs.Implements != "" && callee != nil && callee.Signature.Recv() != nil {
					if _, isI := a.T.Underlying().(*types.Interface); !isI {
						a = c.makeInterface(a, a.T, types.NewInterfaceType(nil, nil))
					}
				}
				vars[p.Name] = a
			}
		}
	}
	if fs != nil {
		for i, p := range fs.Results {
			if i < len(results) {
				vars[p.Name] = results[i]
			}
		}
		if fs.Pkg != "" {
			if p := c.eng.typesPkg(fs.Pkg); p != nil {
				pkg = p
			}
		}
	}
	for i, r := range results {
		vars[fmt.Sprintf("result%d", i)] = r
	}
	if len(results) == 1 {
		vars["result"] = results[0]
	}
	if pkg == nil {
		pkg = pkgOf(f.fn)
	}
	return &Env{c: c, vars: vars, cur: cur, old: old, pkg: pkg, guard: cur.reach}
}

// callSiteHooks processes the "before call" assertions and "assume call" assumptions of the enclosing contract.
func (f *frame) callSiteHooks(sk string, ord int, args []Val, pnames []string, st *State, pos string) {
	c := f.c
	if f.spec == nil {
		return
	}
	if os.Getenv("VCGO_DEBUG_CALLS") != "" {
		fmt.Fprintf(os.Stderr, "call site in %s: %s#%d top=%v\n", f.fn.Name(), sk, ord, f.top)
	}
	for _, a := range f.spec.Asserts {
		if a.Callee != sk || a.Ordinal != ord || a.After {
			continue
		}
		if f.top {
			c.hookHits[fmt.Sprintf("call %s#%d", sk, ord)] = true
		}
		env := f.hereEnv(st)
		for i := range args {
			env.vars[fmt.Sprintf("arg%d", i)] = args[i]
		}
		for i, p := range pnames {
			if i < len(args) {
				if _, clash := env.resolveIdent(p); !clash {
					env.vars[p] = args[i]
				}
			}
		}
		tags := a.Tags
		if len(tags) == 0 {
			tags = c.tags
		}
		if a.Assume {
			c.assume(st.reach, env.evalBool(a.Expr))
			c.assumed["assumed at call "+sk+": "+a.Src] = true
			continue
		}
		c.oblige("assert", fmt.Sprintf("%s#%d", sk, ord), tags, st.reach, env.evalBool(a.Expr), pos, a.Src)
	}
}

// hereEnv is the environment of the current program point of the caller (source variables by name).
func (f *frame) hereEnv(st *State) *Env {
	c := f.c
	b := f.curBlock
	return &Env{c: c, vars: f.ghostVars(), cur: st, old: c.entry, pkg: pkgOf(f.fn), guard: st.reach,
		entry:      f.entryParams(),
		lookupAddr: f.allocAddr,
		lookup: func(name string) (Val, bool) {
			return f.withState(st, func() (Val, bool) { return f.lookupVarAt(name, b, f.curIdx) })
		}}
}

// evalModLocs evaluates modifies expressions to location sets.
func (env *Env) evalModLocs(exprs []ast.Expr, srcs []string) []modLoc {
	var out []modLoc
	for i, x := range exprs {
		src := ""
		if i < len(srcs) {
			src = srcs[i]
		}
		out = append(out, env.evalModLoc(x, src)...)
	}
	return out
}

func (env *Env) evalModLoc(x ast.Expr, src string) []modLoc {
	// elems(s): all elements of slice s;  mapof(m): contents of map m; *p / p.f: the cells of the lvalue
	if call, ok := x.(*ast.CallExpr); ok {
		if id, ok := call.Fun.(*ast.Ident); ok {
			switch id.Name {
			case "elems":
				s := env.eval(call.Args[0])
				el := elemType(s.T)
				return []modLoc{{root: el, lo: 0, hi: len(leavesOf(el)), obj: s.L[0], allIdx: true, src: src}}
			case "family":
				// family(T): every cell of every object of type T (used for value-like foreign types)
				typ := env.c.eng.resolveTypeExpr(env.pkg, call.Args[0])
				return []modLoc{{root: typ, lo: 0, hi: len(leavesOf(typ)), obj: IntT(0), anyObj: true, allIdx: true, src: src}}
			case "pointee":
				// pointee(x): what the pointer held by the interface value x points to (x made from a pointer at a site
				// the symbolic execution has seen, e.g. json.Unmarshal(data, &v))
				v := env.eval(call.Args[0])
				pt, ok := v.Dyn, v.Dyn != nil
				if ok {
					_, ok = pt.Underlying().(*types.Pointer)
				}
				if !ok || v.Root == nil || len(v.L) != 3 {
					panic(specErr("modifies: %s: the argument is not an interface made from a pointer at a known site", exprString(x)))
				}
				n := len(leavesOf(elemType(pt)))
				return []modLoc{{root: v.Root, lo: v.Base, hi: v.Base + n, obj: v.L[1], idx: v.L[2], src: src}}
			case "mapof":
				m := env.eval(call.Args[0])
				return []modLoc{{mapT: m.T.Underlying().(*types.Map), obj: m.L[0], src: src}}
			}
		}
	}
	// family(T).f: the field f of every object of type T
	if sel, ok := x.(*ast.SelectorExpr); ok {
		if call, ok := sel.X.(*ast.CallExpr); ok {
			if id, ok := call.Fun.(*ast.Ident); ok && id.Name == "family" {
				typ := env.c.eng.resolveTypeExpr(env.pkg, call.Args[0])
				stt, ok := typ.Underlying().(*types.Struct)
				if !ok {
					panic(specErr("modifies: %s: not a struct type", exprString(x)))
				}
				for i := 0; i < stt.NumFields(); i++ {
					if stt.Field(i).Name() == sel.Sel.Name {
						lo := fieldOffset(stt, i)
						return []modLoc{{root: typ, lo: lo, hi: lo + len(leavesOf(stt.Field(i).Type())), obj: IntT(0), anyObj: true, allIdx: true, src: src}}
					}
				}
				panic(specErr("modifies: %s: no such field", exprString(x)))
			}
		}
	}
	p, ok := env.evalAddr(x)
	if !ok {
		panic(specErr("modifies: %s is not an lvalue", exprString(x)))
	}
	if _, isLocal := p.Fn.(*localRef); isLocal {
		return nil
	}
	n := len(leavesOf(elemType(p.T)))
	return []modLoc{{root: p.Root, lo: p.Base, hi: p.Base + n, obj: p.L[0], idx: p.L[1], src: src}}
}

func (f *frame) applyContract(fs *FuncSpec, callee *ssa.Function, sig *types.Signature, args []Val, st *State, pos string, name string) []Val {
	c := f.c
	if callee != nil {
		sig = callee.Signature
	}
	for _, a := range args {
		if fn, ok := a.Fn.(*ssa.Function); ok && len(a.L) == 1 {
			f.closureAxiom(a, fn, st)
		}
	}
	pre := st.clone()
	envPre := f.callEnv(callee, fs, args, nil, pre, pre)
	// ghost parameters: fresh symbols chosen by the caller (existential), constrained only by requires
	for _, g := range fs.Ghosts {
		gt := c.eng.resolveType(envPre.pkg, g.Type)
		bound := false
		if f.spec != nil {
			for _, b := range f.spec.Binds {
				if b.Callee == name && b.Ordinal == f.callOrd[name] && b.Name == g.Name {
					cenv := f.hereEnv(pre)
					v := cenv.eval(b.Expr)
					v.T = gt
					envPre.vars[g.Name] = v
					bound = true
				}
			}
		}
		if !bound {
			// a caller that has a ghost of the same name and type passes it on (e.g. recursion, wrappers)
			if gv, ok := f.ghostVars()[g.Name]; ok && len(gv.L) == len(leavesOf(gt)) {
				envPre.vars[g.Name] = gv
				bound = true
			}
		}
		if !bound {
			envPre.vars[g.Name] = c.freshVal("ghost_"+g.Name, gt)
		}
	}
	for i, r := range fs.Requires {
		if r.Name == "assumed" {
			c.assumed["assumed-precondition of "+name+": "+r.Src] = true
			continue
		}
		c.oblige("requires", fmt.Sprintf("%s.%d", name, i+1), clauseTags(r, c.tags), st.reach, envPre.evalBool(r.Expr), pos, "precondition of "+name+": "+r.Src)
	}
	// frame: callee's modifies within ours
	locs := envPre.evalModLocs(fs.Modifies, fs.ModSrc)
	if c.hasMod && !c.pass1 {
		alloc0 := c.get(c.entry, "$alloc", SInt)
		for _, l := range locs {
			var goal *Term
			if l.mapT != nil {
				alts := []*Term{Ge(l.obj, alloc0)}
				for _, m := range c.modLocs {
					if m.mapT != nil && rootKey(m.mapT) == rootKey(l.mapT) {
						alts = append(alts, Eq(l.obj, m.obj))
					}
				}
				goal = Or(alts...)
			} else {
				var cs []*Term
				for k := l.lo; k < l.hi; k++ {
					if l.anyObj {
						ok := TFalse
						for _, m := range c.modLocs {
							if m.anyObj && rootKey(m.root) == rootKey(l.root) {
								ok = TTrue
							}
						}
						cs = append(cs, ok)
						continue
					}
					if l.allIdx {
						var alts []*Term
						alts = append(alts, Ge(l.obj, alloc0))
						for _, m := range c.modLocs {
							if m.mapT == nil && m.allIdx && rootKey(m.root) == rootKey(l.root) && k >= m.lo && k < m.hi {
								if m.anyObj {
									alts = append(alts, TTrue) // the caller may modify the whole family
								} else {
									alts = append(alts, Eq(l.obj, m.obj))
								}
							}
						}
						cs = append(cs, Or(alts...))
					} else {
						// a cell of the nil object is no memory location (a write through nil fails its own obligation)
						cs = append(cs, Or(Ge(l.obj, alloc0), Eq(l.obj, IntT(0)), inLocs(c.modLocs, l.root, k, l.obj, l.idx)))
					}
				}
				goal = And(cs...)
			}
			c.oblige("frame", "call:"+name, c.tags, st.reach, goal, pos, "callee's modifies ("+l.src+") lies within the caller's modifies clause or fresh memory")
		}
	}
	for _, l := range locs {
		c.havocLoc(st, l)
	}
	if !fs.Pure {
		a := c.get(st, "$alloc", SInt)
		na := c.fresh("$alloc", SInt)
		c.assume(st.reach, Ge(na, a))
		st.m["$alloc"] = na
		for _, l := range c.active {
			if c.loopW[l] == nil {
				c.loopW[l] = map[string]bool{}
			}
			c.loopW[l]["$alloc"] = true
		}
		c.famSort["$alloc"] = SInt
	}
	var results []Val
	if fs.Function {
		results = c.functionResults(sig, name, args)
		for _, r := range results {
			c.wellFormed(st.reach, r, st)
		}
	} else {
		results = f.havocResults(sig, name, st)
	}
	env := f.callEnv(callee, fs, args, results, st, pre)
	for k, v := range envPre.vars {
		if strings.HasPrefix(k, "ghost:") {
			env.vars[k] = v
		}
	}
	for _, g := range fs.Ghosts {
		env.vars[g.Name] = envPre.vars[g.Name]
	}
	// the callee's local ghosts (let ...) are values only the callee knows: unconstrained here
	for _, l := range fs.Lets {
		if _, ok := env.vars[l.Name]; !ok {
			env.vars[l.Name] = c.freshVal("let_"+l.Name, c.eng.resolveType(env.pkg, l.Type))
		}
	}
	// fresh results: their objects carry arbitrary (new) contents
	for _, fr := range fs.Fresh {
		v, ok := env.vars[fr]
		if !ok {
			panic(specErr("fresh: unknown result %s", fr))
		}
		f.havocFreshObject(v, st, pre)
	}
	for _, en := range fs.Ensures {
		c.assume(st.reach, env.evalBool(en.Expr))
	}
	return results
}

func (f *frame) havocFreshObject(v Val, st *State, pre *State) {
	c := f.c
	var root types.Type
	var obj *Term
	switch u := v.T.Underlying().(type) {
	case *types.Pointer:
		root, obj = u.Elem(), v.L[0]
	case *types.Slice:
		root, obj = u.Elem(), v.L[0]
	case *types.Map:
		c.havocLoc(st, modLoc{mapT: u, obj: v.L[0]})
		c.assume(st.reach, Imp(Not(Eq(v.L[0], IntT(0))), And(Ge(v.L[0], c.get(pre, "$alloc", SInt)), Lt(v.L[0], c.get(st, "$alloc", SInt)))))
		return
	default:
		panic(specErr("fresh result of type %s", v.T))
	}
	c.havocLoc(st, modLoc{root: root, lo: 0, hi: len(leavesOf(root)), obj: obj, allIdx: true})
	c.assume(st.reach, Imp(Not(Eq(obj, IntT(0))), And(Ge(obj, c.get(pre, "$alloc", SInt)), Lt(obj, c.get(st, "$alloc", SInt)))))
}

func (f *frame) invoke(common *ssa.CallCommon, recv Val, args []Val, st *State, pos string) []Val {
	c := f.c
	it := common.Value.Type()
	name := ""
	if n, ok := it.(*types.Named); ok {
		name = n.Obj().Name()
		if n.Obj().Pkg() != nil && !strings.HasPrefix(n.Obj().Pkg().Path(), repoModule) {
			name = n.Obj().Pkg().Name() + "." + name
		}
	} else {
		name = "interface"
	}
	key := name + "." + common.Method.Name()
	iord := f.callOrdinal(key)
	f.callSiteHooks(key, iord, args, nil, st, pos)
	c.oblige("nil", "invoke "+key, c.tags, st.reach, Not(Eq(recv.L[0], IntT(0))), pos, "method call on nil interface")
	sig := common.Method.Type().(*types.Signature)
	// look for the interface contract in the interface's package, then globally
	var fs *FuncSpec
	if n, ok := it.(*types.Named); ok && n.Obj().Pkg() != nil {
		fs = c.eng.spec.Funcs[n.Obj().Pkg().Path()+"::iface:"+n.Obj().Name()+"."+common.Method.Name()]
	}
	if fs == nil {
		fs = c.eng.spec.Funcs["iface:"+key]
	}
	if fs == nil {
		for k, v := range c.eng.spec.Funcs {
			if strings.HasSuffix(k, "::iface:"+key) {
				fs = v
			}
		}
	}
	if fs != nil {
		c.assumed["interface-contract:"+key] = true
		res := f.applyContract(fs, nil, sig, args, st, pos, key)
		f.afterCallLets(key, iord, args, res, st)
		return res
	}
	c.assumed["assumed-pure:"+key] = true
	res := f.havocResults(sig, key, st)
	f.afterCallLets(key, iord, args, res, st)
	return res
}

// callUnknownFunc: call through a function value whose body is not statically known:
// modelled as a pure uninterpreted function of the closure identity and the argument leaves.
func (f *frame) callUnknownFunc(fv Val, sig *types.Signature, args []Val, st *State, pos string) []Val {
	c := f.c
	c.oblige("nil", "func value", c.tags, st.reach, Not(Eq(fv.L[0], IntT(0))), pos, "call of nil function")
	// a named function type may carry a callback contract: interface <Type>.call
	if n, ok := fv.T.(*types.Named); ok {
		key := n.Obj().Name() + ".call"
		var fs *FuncSpec
		if n.Obj().Pkg() != nil {
			fs = c.eng.spec.Funcs[n.Obj().Pkg().Path()+"::iface:"+key]
		}
		if fs != nil {
			c.assumed["callback-contract:"+key] = true
			ord := f.callOrdinal(key)
			all := append([]Val{fv}, args...)
			f.callSiteHooks(key, ord, all, nil, st, pos)
			res := f.applyContract(fs, nil, sig, all, st, pos, key)
			f.afterCallLets(key, ord, all, res, st)
			return res
		}
	}
	out := c.applyFuncTerm(fv, sig, args)
	c.assumed["callback-pure:"+sig.String()] = true
	return out
}

// closureAxiom links the uninterpreted application of a known closure value to its body:
// forall args. apply(cid, args) == body(args), obtained by running the (pure, loop-free) body on bound variables.
func (f *frame) closureAxiom(fv Val, fn *ssa.Function, st *State) {
	c := f.c
	if c.pass1 {
		return
	}
	key := fv.L[0].String()
	if c.closureAx == nil {
		c.closureAx = map[string]bool{}
	}
	if c.closureAx[key] {
		return
	}
	c.closureAx[key] = true
	sig := fn.Signature
	if sig.Results().Len() != 1 || len(fn.Blocks) == 0 {
		return
	}
	defer func() {
		if r := recover(); r != nil {
			if _, ok := r.(unsupported); ok {
				c.note("no body axiom for closure " + fn.Name())
				return
			}
			panic(r)
		}
	}()
	var bound []*Term
	var args []Val
	savedBound := c.bound
	savedFacts := len(c.facts)
	for i, p := range fn.Params {
		ls := leavesOf(p.Type())
		v := Val{T: p.Type(), L: make([]*Term, len(ls))}
		for j, l := range ls {
			c.nfresh++
			bv := Var(fmt.Sprintf("ca%d_%d!%d", i, j, c.nfresh), l.Sort)
			bound = append(bound, bv)
			c.bound = append(c.bound, bv.Op)
			v.L[j] = bv
		}
		if pt, ok := p.Type().Underlying().(*types.Pointer); ok {
			v.Root = pt.Elem()
		}
		args = append(args, v)
	}
	sub := &frame{c: c, fn: fn, bindings: fv.Bindings, prefix: f.prefix + "cax_" + sanitize(fn.Name()) + ".", inherit: nil}
	scratch := st.clone()
	scratch.reach = TTrue
	c.depth++
	savedActive := c.active
	savedIn := c.inUnfold
	c.inUnfold++ // no obligations from the body here: the body is verified where it is actually called
	c.noNaming++
	rets := sub.run(args, scratch)
	c.noNaming--
	c.inUnfold = savedIn
	c.active = savedActive
	c.depth--
	c.bound = savedBound
	var es []edge
	var vals []Val
	for _, r := range rets {
		if r.panics {
			c.facts = c.facts[:savedFacts]
			return
		}
		es = append(es, edge{cond: r.cond, st: r.st})
		vals = append(vals, r.results[0])
	}
	if len(es) == 0 {
		return
	}
	// result as a nested ite over the return conditions (must not introduce named constants: bound vars)
	res := vals[len(vals)-1]
	out := make([]*Term, len(res.L))
	for j := range res.L {
		t := vals[len(vals)-1].L[j]
		for k := len(vals) - 2; k >= 0; k-- {
			t = Ite(es[k].cond, vals[k].L[j], t)
		}
		out[j] = t
	}
	app := c.applyFuncTerm(fv, sig, args)
	var eqs []*Term
	for j := range out {
		eqs = append(eqs, Eq(app[0].L[j], out[j]))
	}
	c.addFact(Forall(bound, And(eqs...), []*Term{app[0].L[0]}))
	c.assumed["closure-body-axiom:"+fn.Name()] = true
}

// applyFuncTerm models a call through a function value as a pure uninterpreted function of the
// closure identity and the argument leaves.
func (c *FnCtx) applyFuncTerm(fv Val, sig *types.Signature, args []Val) []Val {
	var targs []*Term
	var sorts []string
	targs = append(targs, fv.L[0])
	sorts = append(sorts, SInt)
	for _, a := range args {
		for _, l := range a.L {
			targs = append(targs, l)
			sorts = append(sorts, l.S)
		}
	}
	var out []Val
	for i := 0; i < sig.Results().Len(); i++ {
		rt := sig.Results().At(i).Type()
		ls := leavesOf(rt)
		v := Val{T: rt, L: make([]*Term, len(ls))}
		for j, l := range ls {
			name := fmt.Sprintf("apply_%s_%d_%d", rootKey(sig), i, j)
			c.decls.Fun(name, sorts, l.Sort)
			v.L[j] = App(name, l.Sort, targs...)
		}
		if p, ok := rt.Underlying().(*types.Pointer); ok {
			v.Root = p.Elem()
		}
		out = append(out, v)
	}
	return out
}

func (f *frame) execDeferred(d *ssa.Defer, st *State) {
	c := f.c
	common := &d.Call
	if common.IsInvoke() {
		panic(unsupported("deferred interface call"))
	}
	if callee := common.StaticCallee(); callee != nil {
		var args []Val
		for _, a := range common.Args {
			args = append(args, f.val(a))
		}
		var bindings []Val
		if mc, ok := common.Value.(*ssa.MakeClosure); ok {
			for _, b := range mc.Bindings {
				bindings = append(bindings, f.val(b))
			}
		}
		f.callStatic(callee, bindings, args, st, f.pos(d.Pos()))
		return
	}
	// deferred call of a function value: look at where it came from
	if call, ok := common.Value.(*ssa.Call); ok {
		if sc := call.Call.StaticCallee(); sc != nil {
			fs := c.eng.specFor(sc)
			if fs != nil && strings.Contains(fs.Key, "printTrace") {
				c.note("deferred closure returned by printTrace: modifies only parseContext.depth (by inspection of context.go)")
				return
			}
		}
	}
	fv := f.val(common.Value)
	if fn, ok := fv.Fn.(*ssa.Function); ok {
		f.callStatic(fn, fv.Bindings, nil, st, f.pos(d.Pos()))
		return
	}
	panic(unsupported("deferred call of unknown function value"))
}

// ---- builtins ----

func (f *frame) builtin(b *ssa.Builtin, common *ssa.CallCommon, args []Val, st *State, instr ssa.Instruction) []Val {
	c := f.c
	switch b.Name() {
	case "len":
		v := args[0]
		switch u := common.Args[0].Type().Underlying().(type) {
		case *types.Slice:
			return []Val{intVal(v.L[2])}
		case *types.Basic:
			return []Val{intVal(c.sLen(v.term()))}
		case *types.Map:
			return []Val{intVal(c.mapLen(st, v))}
		case *types.Array:
			return []Val{intVal(IntT(u.Len()))}
		case *types.Pointer:
			if a, ok := u.Elem().Underlying().(*types.Array); ok {
				return []Val{intVal(IntT(a.Len()))}
			}
		}
	case "cap":
		v := args[0]
		if _, ok := common.Args[0].Type().Underlying().(*types.Slice); ok {
			return []Val{intVal(v.L[3])}
		}
	case "append":
		return []Val{f.appendOp(common, args, st, instr)}
	case "copy":
		return []Val{f.copyOp(common, args, st, instr)}
	case "delete":
		m := args[0]
		mt := m.T.Underlying().(*types.Map)
		ks := mapKeySort(mt)
		f.frameCheckMap(m, st, instr.Pos())
		fam := mapFam(mt, "has")
		has := c.get(st, fam, ArrS(SInt, ArrS(ks, SBool)))
		c.set(st, fam, Store(has, m.L[0], Store(Select(has, m.L[0]), args[1].L[0], TFalse)))
		for i, l := range leavesOf(mt.Elem()) {
			fam := mapFam(mt, fmt.Sprintf("v%d", i))
			h := c.get(st, fam, ArrS(SInt, ArrS(ks, l.Sort)))
			c.set(st, fam, Store(h, m.L[0], Store(Select(h, m.L[0]), args[1].L[0], zeroLeaf(l))))
		}
		return nil
	case "min", "max":
		a, bb := args[0].term(), args[1].term()
		if b.Name() == "min" {
			return []Val{{T: args[0].T, L: []*Term{Ite(Le(a, bb), a, bb)}}}
		}
		return []Val{{T: args[0].T, L: []*Term{Ite(Ge(a, bb), a, bb)}}}
	case "ssa:wrapnilchk":
		return []Val{args[0]}
	case "print", "println":
		return nil
	}
	panic(unsupported("builtin " + b.Name()))
}

func (f *frame) appendOp(common *ssa.CallCommon, args []Val, st *State, instr ssa.Instruction) Val {
	c := f.c
	s := args[0]
	st0 := common.Args[0].Type()
	sl := st0.Underlying().(*types.Slice)
	el := sl.Elem()
	s = c.coerceTo(s, st0)
	// second argument is a slice (ssa always passes a slice; for append(s, x) it builds one)
	var more Val
	moreIsString := false
	if len(args) > 1 {
		more = args[1]
		if isString(common.Args[1].Type()) {
			moreIsString = true
		} else {
			more = c.coerceTo(more, common.Args[1].Type())
		}
	}
	obj := c.allocObj(st)
	var n *Term
	if len(args) > 1 {
		if moreIsString {
			n = c.sLen(more.term())
		} else {
			n = more.L[2]
		}
	} else {
		n = IntT(0)
	}
	newLen := Add(s.L[2], n)
	cp := c.fresh("cap", SInt)
	c.addFact(Ge(cp, newLen))
	k := Var("k!a", SInt)
	for i, l := range leavesOf(el) {
		fam := heapFam(el, i)
		h := c.get(st, fam, heapSort(l.Sort))
		a := c.fresh("app", ArrS(SInt, l.Sort))
		// prefix copied
		c.addFact(Forall([]*Term{k}, Imp(And(Le(IntT(0), k), Lt(k, s.L[2])), Eq(Select(a, k), Select(Select(h, s.L[0]), Add(s.L[1], k)))), []*Term{Select(a, k)}))
		if len(args) > 1 {
			if moreIsString {
				c.addFact(Forall([]*Term{k}, Imp(And(Le(IntT(0), k), Lt(k, n)), Eq(Select(a, Add(s.L[2], k)), c.sAt(more.term(), k))), []*Term{c.sAt(more.term(), k)}))
			} else {
				c.addFact(Forall([]*Term{k}, Imp(And(Le(s.L[2], k), Lt(k, newLen)), Eq(Select(a, k), Select(Select(h, more.L[0]), Add(more.L[1], Sub(k, s.L[2]))))), []*Term{Select(a, k)}))
			}
		}
		if ls := leavesOf(el); len(ls) == 1 && (l.Sort == SInt || l.Sort == SStr) {
			// what the new slice holds, as a set (member): the elements of the old one and the appended ones
			x := Var("x!a", l.Sort)
			mem := func(arr, off, n *Term) *Term { return App("mem_"+l.Sort, SBool, arr, off, n, x) }
			rhs := mem(Select(h, s.L[0]), s.L[1], s.L[2])
			if len(args) > 1 && !moreIsString {
				rhs = Or(rhs, mem(Select(h, more.L[0]), more.L[1], n))
			}
			if len(args) <= 1 || !moreIsString {
				c.addMemFact(Forall([]*Term{x}, Eq(mem(a, IntT(0), newLen), rhs), []*Term{mem(a, IntT(0), newLen)}))
			}
		}
		c.set(st, fam, Store(h, obj, a))
	}
	c.note("append modelled functionally (fresh backing array; in-place growth aliasing not modelled)")
	// appending nothing returns the slice itself
	isEmpty := Eq(n, IntT(0))
	return Val{T: st0, L: []*Term{Ite(isEmpty, s.L[0], obj), Ite(isEmpty, s.L[1], IntT(0)), newLen, Ite(isEmpty, s.L[3], cp)}}
}

func (f *frame) copyOp(common *ssa.CallCommon, args []Val, st *State, instr ssa.Instruction) Val {
	c := f.c
	dst, src := args[0], args[1]
	el := elemType(common.Args[0].Type())
	var srcLen *Term
	srcIsString := isString(common.Args[1].Type())
	if srcIsString {
		srcLen = c.sLen(src.term())
	} else {
		srcLen = src.L[2]
	}
	n := Ite(Le(dst.L[2], srcLen), dst.L[2], srcLen)
	// frame: elements of dst
	if c.hasMod && !c.pass1 {
		alloc0 := c.get(c.entry, "$alloc", SInt)
		alts := []*Term{Ge(dst.L[0], alloc0), Eq(n, IntT(0))}
		for _, m := range c.modLocs {
			if m.mapT == nil && m.allIdx && rootKey(m.root) == rootKey(el) {
				alts = append(alts, Eq(dst.L[0], m.obj))
			}
		}
		c.oblige("frame", "copy", c.tags, st.reach, Or(alts...), f.pos(instr.Pos()), "copy destination is in the modifies clause or fresh")
	}
	k := Var("k!c", SInt)
	for i, l := range leavesOf(el) {
		fam := heapFam(el, i)
		h := c.get(st, fam, heapSort(l.Sort))
		a := c.fresh("cpy", ArrS(SInt, l.Sort))
		inRange := And(Le(dst.L[1], k), Lt(k, Add(dst.L[1], n)))
		var srcElem *Term
		if srcIsString {
			srcElem = c.sAt(src.term(), Sub(k, dst.L[1]))
		} else {
			srcElem = Select(Select(h, src.L[0]), Add(src.L[1], Sub(k, dst.L[1])))
		}
		c.addFact(Forall([]*Term{k}, Eq(Select(a, k), Ite(inRange, srcElem, Select(Select(h, dst.L[0]), k))), []*Term{Select(a, k)}))
		c.set(st, fam, Store(h, dst.L[0], a))
	}
	return intVal(n)
}

// pkgOf returns the types package a function belongs to (also for generic instances, closures, wrappers).
func pkgOf(fn *ssa.Function) *types.Package {
	for f := fn; f != nil; f = f.Parent() {
		if f.Pkg != nil {
			return f.Pkg.Pkg
		}
		if o := f.Origin(); o != nil && o.Pkg != nil {
			return o.Pkg.Pkg
		}
	}
	if fn.Object() != nil {
		return fn.Object().Pkg()
	}
	return nil
}

func mentionsTypeParam(t types.Type) bool {
	switch u := t.(type) {
	case *types.TypeParam:
		return true
	case *types.Pointer:
		return mentionsTypeParam(u.Elem())
	case *types.Slice:
		return mentionsTypeParam(u.Elem())
	case *types.Named:
		if ta := u.TypeArgs(); ta != nil {
			for i := 0; i < ta.Len(); i++ {
				if mentionsTypeParam(ta.At(i)) {
					return true
				}
			}
		}
		return u.TypeParams().Len() > 0 && u.TypeArgs().Len() == 0
	}
	return false
}
