package main

import (
	"bufio"
	"bytes"
	"context"
	"encoding/json"
	"fmt"
	"os"
	"os/exec"
	"path/filepath"
	"regexp"
	"sort"
	"strings"
	"time"
)

// BoundedResult is what one bounded stand-in test reports (the VERIF-RESULT line).
type BoundedResult struct {
	Check       string   `json:"check"`
	Property    string   `json:"property"`
	Bound       string   `json:"bound"`
	Evaluations int      `json:"evaluations"`
	Distinct    int      `json:"distinct_nontrivial"`
	Rule        string   `json:"rule"`
	Samples     []string `json:"samples"`
	Violations  []string `json:"violations"`
	Exhaustive  bool     `json:"exhaustive"`
	Test        string   `json:"test"`
	Pkg         string   `json:"pkg"`
	Crashed     string   `json:"crashed,omitempty"`
}

// boundedDirs maps a directory under /verif/bounded to the package directory in the repository.
var boundedDirs = map[string]string{"lexer": "lexer", "root": ".", "ebnf": "ebnf"}

// runBounded injects the bounded stand-ins with `go test -overlay` and runs the tests whose name mentions prop.
func runBounded(repo, verif, prop, tier string) ([]BoundedResult, []string) {
	var results []BoundedResult
	var problems []string
	dirs := make([]string, 0, len(boundedDirs))
	for d := range boundedDirs {
		dirs = append(dirs, d)
	}
	sort.Strings(dirs)
	for _, d := range dirs {
		src := filepath.Join(verif, "bounded", d)
		files, _ := filepath.Glob(filepath.Join(src, "*_test.go"))
		if len(files) == 0 {
			continue
		}
		// does any file define a test for this property?
		pat := regexp.MustCompile(`func (TestVerif_[A-Za-z0-9]*` + prop + `[A-Za-z0-9]*_\w+)\(`)
		var tests []string
		for _, f := range files {
			b, _ := os.ReadFile(f)
			for _, m := range pat.FindAllSubmatch(b, -1) {
				tests = append(tests, string(m[1]))
			}
		}
		if len(tests) == 0 {
			continue
		}
		timeout := 240
		if tier == "thorough" {
			timeout = 1500
		}
		var out bytes.Buffer
		var err error
		// A stand-in that looks into the representation (fields of unexported structs) stops compiling when a change
		// replaces the representation; the files the compiler names are then left out and the others still run.
		for attempt := 0; attempt < 4; attempt++ {
			overlay := map[string]map[string]string{"Replace": {}}
			pkgDir := filepath.Join(repo, boundedDirs[d])
			for _, f := range files {
				overlay["Replace"][filepath.Join(pkgDir, filepath.Base(f))] = f
			}
			tmp, _ := os.MkdirTemp("", "vcgo-bounded")
			ovFile := filepath.Join(tmp, "overlay.json")
			ob, _ := json.Marshal(overlay)
			os.WriteFile(ovFile, ob, 0o644)
			ctx, cancel := context.WithTimeout(context.Background(), time.Duration(timeout+30)*time.Second)
			cmd := exec.CommandContext(ctx, "go", "test", "-overlay", ovFile, "-tags", "verif", "-vet=off", "-count=1", "-v",
				fmt.Sprintf("-timeout=%ds", timeout), "-run", "^("+strings.Join(tests, "|")+")$", "./"+boundedDirs[d])
			cmd.Dir = repo
			cmd.Env = append(os.Environ(), "GOFLAGS=-mod=mod", "GOPROXY=off", "GOSUMDB=off", "GOTOOLCHAIN=local", "VERIF_TIER="+tier,
				"VERIF_DIR="+verif, "VERIF_CONTRACTS="+strings.Join([]string{filepath.Join(repo, "contracts_verif.go"), filepath.Join(repo, "lexer", "contracts_verif.go")}, ":"))
			out.Reset()
			cmd.Stdout = &out
			cmd.Stderr = &out
			err = cmd.Run()
			cancel()
			os.RemoveAll(tmp)
			if err == nil || !strings.Contains(out.String(), "[build failed]") {
				break
			}
			bad := map[string]bool{}
			for _, m := range regexp.MustCompile(`([A-Za-z0-9_]+_test\.go):\d+:\d+:`).FindAllStringSubmatch(out.String(), -1) {
				bad[m[1]] = true
			}
			var keep []string
			for _, f := range files {
				if !bad[filepath.Base(f)] {
					keep = append(keep, f)
				}
			}
			if len(keep) == len(files) || len(keep) == 0 {
				break
			}
			var dropped []string
			for b := range bad {
				dropped = append(dropped, b)
			}
			sort.Strings(dropped)
			problems = append(problems, fmt.Sprintf("bounded stand-ins in %s: %s no longer compile against this tree and were left out", d, strings.Join(dropped, ", ")))
			files = keep
			tests = nil
			for _, f := range files {
				b, _ := os.ReadFile(f)
				for _, m := range pat.FindAllSubmatch(b, -1) {
					tests = append(tests, string(m[1]))
				}
			}
			if len(tests) == 0 {
				break
			}
		}
		got := map[string]bool{}
		sc := bufio.NewScanner(bytes.NewReader(out.Bytes()))
		sc.Buffer(make([]byte, 1<<20), 1<<26)
		for sc.Scan() {
			line := sc.Text()
			if i := strings.Index(line, "VERIF-RESULT "); i >= 0 {
				var r BoundedResult
				if json.Unmarshal([]byte(line[i+13:]), &r) == nil {
					r.Pkg = boundedDirs[d]
					results = append(results, r)
					got[r.Check] = true
				}
			}
		}
		if err != nil && len(results) == 0 && !(strings.Contains(out.String(), "=== RUN") && (strings.Contains(out.String(), "fatal error:") || strings.Contains(out.String(), "panic:"))) {
			txt := out.String()
			if len(txt) > 1500 {
				txt = txt[len(txt)-1500:]
			}
			// build failure or crash before any result: the stand-in could not run (not a verdict on the property)
			problems = append(problems, fmt.Sprintf("bounded stand-ins in %s did not run: %v: %s", d, err, txt))
		} else if err != nil {
			// some test failed or crashed: a crash (panic in the code under test) is a violation in its own right
			txt := out.String()
			if i := strings.Index(txt, "fatal error:"); i >= 0 && !strings.Contains(txt, "panic:") {
				// the runtime killed the test binary (stack overflow, out of memory, deadlock): the code under test
				// did not return; the tests that had not reported yet are the ones affected
				what := firstLine(txt[i:])
				running := ""
				for _, m := range regexp.MustCompile(`=== RUN   (\S+)`).FindAllStringSubmatch(txt, -1) {
					running = m[1]
				}
				if i > 300 {
					txt = txt[i-300:]
				}
				if len(txt) > 2000 {
					txt = txt[:2000]
				}
				results = append(results, BoundedResult{Check: "bounded run in " + d, Property: prop, Pkg: boundedDirs[d], Crashed: txt,
					Violations: []string{"the code under test did not return during " + running + ": " + what}})
			} else if strings.Contains(txt, "panic:") {
				what := firstLine(txt[strings.Index(txt, "panic:"):])
				if i := strings.Index(txt, "panic:"); i > 300 {
					txt = txt[i-300:]
				}
				if len(txt) > 2000 {
					txt = txt[:2000]
				}
				results = append(results, BoundedResult{Check: "bounded run in " + d, Property: prop, Pkg: boundedDirs[d], Crashed: txt,
					Violations: []string{"the code under test panicked during the bounded run: " + what}})
			}
		}
	}
	return results, problems
}
