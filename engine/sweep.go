package main

import (
	"flag"
	"fmt"
	"go/types"
	"os"
	"sort"
	"strings"

	"golang.org/x/tools/go/ssa"
)

// cmdSweep: a zero-annotation no-panic sweep. Every function of the repository packages that has no contract is run
// with an empty contract (non-nil pointer / map / interface / func parameters, every loop cut with the invariant
// "true"), and only the safety obligations are solved: index, slice, nil, type assertion, explicit panic, nil map,
// make, and the preconditions of stubs (reflect). Failures are leads for triage, not verdicts: most are missing
// preconditions. vcgo sweep [-repo /repo] [-func substr]
func cmdSweep(args []string) {
	fl := flag.NewFlagSet("sweep", flag.ExitOnError)
	repo := fl.String("repo", "/repo", "repository root")
	only := fl.String("func", "", "only functions whose key contains this")
	stubs := fl.String("stubs", "/verif/stubs/*.spec", "stub spec files")
	all := fl.Bool("all", false, "also functions that already have a contract")
	fl.Parse(args)
	eng, err := LoadEngine(*repo, []string{".", "./lexer", "./ebnf"}, []string{*stubs})
	if err != nil {
		fmt.Fprintln(os.Stderr, "load:", err)
		os.Exit(2)
	}
	var fns []*ssa.Function
	seen := map[*ssa.Function]bool{}
	var add func(f *ssa.Function)
	add = func(f *ssa.Function) {
		if f == nil || seen[f] || len(f.Blocks) == 0 || f.Synthetic != "" {
			return
		}
		seen[f] = true
		pos := eng.fset.Position(f.Pos()).Filename
		if strings.HasSuffix(pos, "_test.go") || strings.Contains(pos, "contracts_verif") {
			return
		}
		fns = append(fns, f)
		for _, an := range f.AnonFuncs {
			add(an)
		}
	}
	for path, sp := range eng.spkgs {
		if !strings.HasPrefix(path, repoModule) || strings.Contains(path, "/internal") || strings.Contains(path, "/cmd/") {
			continue
		}
		for _, m := range sp.Members {
			switch t := m.(type) {
			case *ssa.Function:
				add(t)
			case *ssa.Type:
				for _, T := range []types.Type{t.Type(), types.NewPointer(t.Type())} {
					ms := eng.prog.MethodSets.MethodSet(T)
					for i := 0; i < ms.Len(); i++ {
						if named, ok := t.Type().(*types.Named); ok && named.TypeParams().Len() > 0 {
							// generic receiver: take the origin method
							if fn := eng.prog.FuncValue(ms.At(i).Obj().(*types.Func)); fn != nil {
								add(fn)
							}
							continue
						}
						add(eng.prog.MethodValue(ms.At(i)))
					}
				}
			}
		}
	}
	sort.Slice(fns, func(i, j int) bool { return fnKey(fns[i]) < fnKey(fns[j]) })
	safety := map[string]bool{"index": true, "slice": true, "nil": true, "typeassert": true, "panic": true, "nilmap": true, "makeslice": true, "requires": true, "div": true, "shift": true}
	var obls []*Obligation
	undecided := 0
	for _, fn := range fns {
		key := fnKey(fn)
		if *only != "" && !strings.Contains(key, *only) {
			continue
		}
		if _, has := eng.spec.Funcs[key]; has && !*all {
			continue
		}
		i := strings.Index(key, "::")
		fs := &FuncSpec{Pkg: key[:i], Key: key[i+2:], Tags: []string{"SWEEP"}, Sweep: true, Loops: map[int]*LoopSpec{}, AllowPanic: map[int]string{}, AllowKinds: map[string]string{}}
		saved, had := eng.spec.Funcs[key]
		eng.spec.Funcs[key] = fs
		res := eng.VerifyFunc(key)
		if had {
			eng.spec.Funcs[key] = saved
		} else {
			delete(eng.spec.Funcs, key)
		}
		if res.Undecided != "" {
			undecided++
			fmt.Printf("skip  %-60s %s\n", fs.Key, firstLine(res.Undecided))
			continue
		}
		for _, o := range res.Obls {
			if safety[o.Kind] {
				obls = append(obls, o)
			}
		}
	}
	dir, _ := os.MkdirTemp("", "vcgo-sweep")
	defer os.RemoveAll(dir)
	solveAll(obls, dir, 3, 6, 12)
	failed := 0
	for _, o := range obls {
		if o.Status != "discharged" {
			failed++
			fmt.Printf("LEAD  %-50s %-10s %s  -- %s\n", o.Func, o.Kind, o.Pos, o.Src)
		}
	}
	fmt.Printf("sweep: %d functions, %d safety obligations, %d leads, %d functions outside the subset\n", len(fns), len(obls), failed, undecided)
}
