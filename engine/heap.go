package main

import (
	"os"
	"fmt"
	"go/types"
	"sort"
	"strings"

	"golang.org/x/tools/go/ssa"
)

// State is a symbolic store: heap families (arrays), promoted locals (scalars) and the allocation counter.
type State struct {
	m     map[string]*Term
	reach *Term
}

func (s *State) clone() *State {
	n := &State{m: make(map[string]*Term, len(s.m)), reach: s.reach}
	for k, v := range s.m {
		n.m[k] = v
	}
	return n
}

// Obligation is one named proof goal.
type Obligation struct {
	Name   string
	Kind   string // ensures, requires, invariant-entry, invariant-preserved, decreases, index, slice, nil, panic, frame, assert, typeassert, overflow, lemma, div, cover
	Func   string
	Tags   []string
	Goal   *Term
	Guard  *Term
	NFacts int // number of facts visible to this obligation
	Pos    string
	Src    string
	Cover  bool // a reachability cover: expected SAT
	ctx    *FnCtx
	// results
	Status  string // discharged | failed | unknown
	Solver  string
	Millis  int64
	Output  string
	SMTSize int
}

// FnCtx is the verification context of one function (or lemma).
type FnCtx struct {
	eng      *Engine
	name     string
	decls    *Decls
	facts    []*Term
	memFacts map[int]bool // facts about member(): emitted only with queries that mention it
	obls     []*Obligation
	nfresh   int
	famSort  map[string]string // family -> sort
	lits     map[string]*Term  // string literal -> constant
	tags     []string
	spec     *FuncSpec
	pkg      *types.Package
	assumed  map[string]bool // trusted things used
	ordinals map[string]int  // obligation kind -> running ordinal
	unfolded map[string]bool
	inUnfold int
	entry    *State
	loopW    map[string]map[string]bool // pass-1 result: loop id -> families written
	active   []string                   // active loop ids (stack)
	pass1    bool
	modLocs  []modLoc
	hasMod   bool
	fn       *ssa.Function
	depth    int
	recFrame map[string]bool // rec functions whose frame axiom has been emitted in this context
	recFams  []string // recording of families read (for spec rec signature discovery)
	rec      bool
	notes    []string
	bound    []string // names of quantifier-bound variables currently in scope
	mapAx    map[string]bool
	factSeen map[string]bool
	ghosts   map[string]Val // ghost parameters of the function under verification
	ghosts0  map[string]Val            // let ghosts: the unconstrained value they have where their call site has not been passed
	ghostBlk map[string]*ssa.BasicBlock // let ghosts: the block of the call site that fixed the current value
	rangeLoop map[int]*mapRange // map iterators of the function under verification, by loop ordinal
	hookHits map[string]bool // call-site clauses (before call / assume call / let) that matched a call site
	closureAx  map[string]bool
	pathCovers []*Obligation
	noNaming   int // >0: do not introduce named constants for intermediate terms (bodies run on bound variables)
}

func (c *FnCtx) fresh(prefix, sort string) *Term {
	c.nfresh++
	name := fmt.Sprintf("%s!%d", sanitize(prefix), c.nfresh)
	return c.decls.Const(name, sort)
}

func sanitize(s string) string {
	r := strings.NewReplacer(" ", "_", "(", "_", ")", "_", "*", "P", "[", "_", "]", "_", ",", "_", "/", "_", "\"", "_", "'", "_", "\\", "_", ";", "_", "{", "_", "}", "_", "#", "_", ":", "_", "|", "_", "`", "_", "&", "_", "<", "_", ">", "_", "=", "_", "+", "_", "-", "_", "!", "_", "?", "_", "~", "_", "^", "_", "%", "_")
	return r.Replace(s)
}

func (c *FnCtx) addFact(t *Term) {
	if t == TTrue || t == nil {
		return
	}
	if len(c.bound) > 0 && mentionsAny(t, c.bound) {
		return // side fact about a quantifier-bound term: dropping an assumption is sound
	}
	if c.factSeen == nil {
		c.factSeen = map[string]bool{}
	}
	k := t.String()
	if c.factSeen[k] {
		return
	}
	c.factSeen[k] = true
	c.facts = append(c.facts, t)
}

// ghostAt: the value of a ghost as seen from block b. A let ghost denotes the value fixed at the most recent passage
// through its call site on the path taken (within a loop: in the iteration at hand) and is unconstrained on paths that
// did not pass it: the term fixed there is only constrained under that site's reachability, so it can be used as is
// (callers never see it: at call sites a callee's let ghosts are fresh).
func (c *FnCtx) ghostAt(name string, b *ssa.BasicBlock) Val {
	return c.ghosts[name]
}

// addMemFact records a fact that only matters to queries speaking about member() (kept out of all others).
func (c *FnCtx) addMemFact(t *Term) {
	if c.memFacts == nil {
		c.memFacts = map[int]bool{}
	}
	c.memFacts[len(c.facts)] = true
	c.addFact(t)
}

func mentionsAny(t *Term, names []string) bool {
	found := false
	t.Walk(func(x *Term) {
		if found || len(x.Args) > 0 || x.Bound != nil {
			return
		}
		for _, n := range names {
			if x.Op == n {
				found = true
			}
		}
	})
	return found
}

func (c *FnCtx) assume(guard, t *Term) { c.addFact(Imp(guard, t)) }

func (c *FnCtx) note(s string) {
	for _, n := range c.notes {
		if n == s {
			return
		}
	}
	c.notes = append(c.notes, s)
}

// oblige records a proof obligation and then assumes it for what follows.
func (c *FnCtx) oblige(kind, label string, tags []string, guard, goal *Term, pos, src string) {
	if c.pass1 || c.inUnfold > 0 {
		return
	}
	if kind == "frame" && c.spec != nil && len(c.spec.FrameTags) > 0 {
		// frame obligations may serve a further property (C09: nothing shared is written)
		tags = append(append([]string{}, tags...), c.spec.FrameTags...)
	}
	if c.spec != nil && c.depth == 0 {
		if reason, ok := c.spec.AllowKinds[kind]; ok {
			c.assumed["unchecked "+kind+" obligations in "+c.name+": "+reason] = true
			c.assume(guard, goal)
			return
		}
	}
	if goal == TTrue || guard == TFalse {
		// trivially discharged by construction; still count it
		c.ordinals[kind]++
		o := &Obligation{Name: c.oblName(kind, label), Kind: kind, Func: c.name, Tags: tags, Goal: TTrue, Guard: guard, NFacts: len(c.facts), Pos: pos, Src: src, ctx: c, Status: "discharged", Solver: "syntactic"}
		c.obls = append(c.obls, o)
		return
	}
	c.ordinals[kind]++
	o := &Obligation{Name: c.oblName(kind, label), Kind: kind, Func: c.name, Tags: tags, Goal: goal, Guard: guard, NFacts: len(c.facts), Pos: pos, Src: src, ctx: c}
	c.obls = append(c.obls, o)
	// assert-then-assume, but only for obligations checked under every property of the function:
	// a clause tagged for one property must not become a silent premise of another property's proof
	if tagsCover(tags, c.tags) {
		c.assume(guard, goal)
	}
}

func (c *FnCtx) oblName(kind, label string) string {
	n := c.ordinals[kind]
	if label != "" {
		return fmt.Sprintf("%s/%s#%d:%s", c.name, kind, n, label)
	}
	return fmt.Sprintf("%s/%s#%d", c.name, kind, n)
}

// ---- families ----

func (c *FnCtx) base(fam, sort string) *Term {
	if s, ok := c.famSort[fam]; ok && s != sort {
		panic(fmt.Sprintf("family %s sort mismatch %s vs %s", fam, s, sort))
	}
	c.famSort[fam] = sort
	return c.decls.Const(fam+"@0", sort)
}

func (c *FnCtx) get(st *State, fam, sort string) *Term {
	if c.rec {
		found := false
		for _, f := range c.recFams {
			if f == fam {
				found = true
			}
		}
		if !found {
			c.recFams = append(c.recFams, fam)
		}
	}
	if t, ok := st.m[fam]; ok {
		return t
	}
	return c.base(fam, sort)
}

func (c *FnCtx) set(st *State, fam string, t *Term) {
	c.famSort[fam] = t.S
	// name the new version to keep terms small
	if len(t.Args) > 0 && c.noNaming == 0 {
		v := c.fresh(fam, t.S)
		c.addFact(Eq(v, t))
		t = v
	}
	st.m[fam] = t
	if !strings.HasPrefix(fam, "$") {
		for _, l := range c.active {
			if c.loopW[l] == nil {
				c.loopW[l] = map[string]bool{}
			}
			c.loopW[l][fam] = true
		}
	}
}

func heapFam(root types.Type, leaf int) string {
	return fmt.Sprintf("H_%s_%d", rootKey(root), leaf)
}

func heapSort(leafSort string) string { return ArrS(SInt, ArrS(SInt, leafSort)) }

// ---- pointers ----

// mkPtr builds a pointer value.
func mkPtr(t types.Type, root types.Type, base int, obj, idx *Term) Val {
	return Val{T: t, L: []*Term{obj, idx}, Root: root, Base: base}
}

// LocalPtr marks pointers to promoted locals: Root == nil and Fn holds the *ssa.Alloc.
type localRef struct {
	alloc *ssa.Alloc
	id    string
}

func (c *FnCtx) loadPtr(st *State, p Val, t types.Type) Val {
	ls := leavesOf(t)
	out := Val{T: t, L: make([]*Term, len(ls))}
	if lr, ok := p.Fn.(*localRef); ok {
		for i, l := range ls {
			out.L[i] = c.get(st, fmt.Sprintf("L.%s.%d", lr.id, p.Base+i), l.Sort)
		}
	} else {
		if p.Root == nil {
			panic(unsupported("load through pointer without root: " + p.T.String()))
		}
		rl := leavesOf(p.Root)
		if p.Base+len(ls) > len(rl) {
			panic(unsupported(fmt.Sprintf("load of %s at leaf %d exceeds root %s", t, p.Base, p.Root)))
		}
		for i, l := range ls {
			h := c.get(st, heapFam(p.Root, p.Base+i), heapSort(l.Sort))
			out.L[i] = Select(Select(h, p.L[0]), p.L[1])
		}
	}
	if pt, ok := t.Underlying().(*types.Pointer); ok {
		out.Root = pt.Elem()
	}
	// values stored in the heap are well-formed (references denote allocated objects, slice headers are sane)
	if c.inUnfold == 0 || len(c.bound) == 0 {
		c.wellFormed(st.reach, out, st)
	}
	c.quantWF(st, out)
	return out
}

// quantWF: a value loaded under a quantifier gets the well-formedness facts of any loaded value, generalised over the
// bound variables the loaded cell depends on (addFact drops facts that mention bound variables; every cell of every
// reachable heap holds a well-formed value: references denote allocated objects, slice headers are sane).
func (c *FnCtx) quantWF(st *State, out Val) {
	if !(c.inUnfold == 0 && len(c.bound) > 0 && len(out.L) > 0 && os.Getenv("VCGO_NO_QWF") == "") {
		return
	}
	var bvs []*Term
	seen := map[string]bool{}
	out.L[0].Walk(func(x *Term) {
		if len(x.Args) == 0 && x.Bound == nil {
			for _, n := range c.bound {
				if x.Op == n && !seen[n] {
					seen[n] = true
					bvs = append(bvs, x)
				}
			}
		}
	})
	covered := len(bvs) > 0
	for _, l := range out.L[1:] {
		l.Walk(func(x *Term) {
			if len(x.Args) == 0 && x.Bound == nil {
				for _, n := range c.bound {
					if x.Op == n && !seen[n] {
						covered = false
					}
				}
			}
		})
	}
	if !covered {
		return
	}
	if ts := wfTerms(out, c.get(st, "$alloc", SInt)); len(ts) > 0 {
		saved := c.bound
		c.bound = nil
		c.addFact(Forall(bvs, Imp(st.reach, And(ts...)), []*Term{out.L[0]}))
		c.bound = saved
	}
}

func (c *FnCtx) storePtr(st *State, p Val, v Val) {
	ls := leavesOf(v.T)
	if len(ls) != len(v.L) {
		panic(fmt.Sprintf("storePtr: leaf count mismatch for %s: %d vs %d", v.T, len(ls), len(v.L)))
	}
	if lr, ok := p.Fn.(*localRef); ok {
		for i := range ls {
			c.set(st, fmt.Sprintf("L.%s.%d", lr.id, p.Base+i), v.L[i])
		}
		return
	}
	if p.Root == nil {
		panic(unsupported("store through pointer without root"))
	}
	for i, l := range ls {
		fam := heapFam(p.Root, p.Base+i)
		h := c.get(st, fam, heapSort(l.Sort))
		c.set(st, fam, Store(h, p.L[0], Store(Select(h, p.L[0]), p.L[1], v.L[i])))
	}
}

// allocObj returns a fresh object id and bumps the allocation counter.
func (c *FnCtx) allocObj(st *State) *Term {
	a := c.get(st, "$alloc", SInt)
	id := c.fresh("obj", SInt)
	c.addFact(Eq(id, a))
	c.set(st, "$alloc", Add(a, IntT(1)))
	return id
}

func constArr(sort string, v *Term) *Term {
	if ArrElem(sort) == SStr {
		// cvc5 only accepts values in constant arrays; the prelude axiomatises these
		return Var("zarr_"+ArrIdx(sort)+"_Str", sort)
	}
	return App("(as const "+sort+")", sort, v)
}

// zeroObject initialises every leaf of a fresh object (all indices) to zero.
func (c *FnCtx) zeroObject(st *State, root types.Type, obj *Term) {
	for i, l := range leavesOf(root) {
		fam := heapFam(root, i)
		h := c.get(st, fam, heapSort(l.Sort))
		c.set(st, fam, Store(h, obj, constArr(ArrS(SInt, l.Sort), zeroLeaf(l))))
	}
}

// ---- maps ----

func mapKeySort(m *types.Map) string {
	ls := leavesOf(m.Key())
	if _, ok := m.Key().Underlying().(*types.Interface); ok {
		return SInt // interface keys are folded into one Int by the uninterpreted function ikey
	}
	if len(ls) != 1 {
		panic(unsupported("map key type " + m.Key().String()))
	}
	return ls[0].Sort
}

// mapKey returns the single term used to index the map arrays.
func (c *FnCtx) mapKey(m *types.Map, key Val) *Term {
	if _, ok := m.Key().Underlying().(*types.Interface); ok {
		if len(key.L) != 3 {
			panic(unsupported("interface map key without interface leaves"))
		}
		c.decls.Fun("ikey", []string{SInt, SInt, SInt}, SInt)
		return App("ikey", SInt, key.L...)
	}
	if len(key.L) != 1 {
		panic(unsupported("map key with several leaves"))
	}
	return key.L[0]
}

func mapFam(m *types.Map, what string) string {
	return "M_" + rootKey(m) + "_" + what
}

func (c *FnCtx) mapLookup(st *State, mv Val, key Val) (Val, *Term) {
	m := mv.T.Underlying().(*types.Map)
	ks := mapKeySort(m)
	kt := c.mapKey(m, key)
	hasFam := mapFam(m, "has")
	_, hasTouched := st.m[hasFam]
	has := c.get(st, hasFam, ArrS(SInt, ArrS(ks, SBool)))
	ok := Select(Select(has, mv.L[0]), kt)
	ls := leavesOf(m.Elem())
	out := Val{T: m.Elem(), L: make([]*Term, len(ls))}
	for i, l := range ls {
		fam := mapFam(m, fmt.Sprintf("v%d", i))
		_, touched := st.m[fam]
		h := c.get(st, fam, ArrS(SInt, ArrS(ks, l.Sort)))
		out.L[i] = Select(Select(h, mv.L[0]), kt)
		// absent keys hold the zero value: a representation invariant of Go maps, true of every reachable heap,
		// so it may be assumed of any named version of the map arrays (entry, after a loop head or a callee's havoc)
		if (!touched && !hasTouched) || (len(has.Args) == 0 && len(h.Args) == 0) {
			c.mapAxiom(has, h, ks, zeroLeaf(l))
		}
	}
	if pt, ok := m.Elem().Underlying().(*types.Pointer); ok {
		out.Root = pt.Elem()
	}
	if len(c.bound) == 0 || !mentionsAny(kt, c.bound) {
		c.wellFormed(st.reach, out, st)
	} else if st == c.entry && len(ls) > 0 {
		// a lookup under a quantifier in the entry state: every value stored in a map of the entry heap is well-formed
		c.mapWF(st, m, ks)
	} else if len(ls) > 0 {
		c.quantWF(st, out)
	}
	return out, ok
}

// mapWF: forall m k. wf(M[m][k]) for the entry versions of a map's value families (once per map type).
func (c *FnCtx) mapWF(st *State, m *types.Map, ks string) {
	if c.mapAx == nil {
		c.mapAx = map[string]bool{}
	}
	key := "wf|" + mapFam(m, "v0")
	if c.mapAx[key] {
		return
	}
	c.mapAx[key] = true
	mv := Var("m!w", SInt)
	kv := Var("k!w", ks)
	ls := leavesOf(m.Elem())
	v := Val{T: m.Elem(), L: make([]*Term, len(ls))}
	for i, l := range ls {
		h := c.get(st, mapFam(m, fmt.Sprintf("v%d", i)), ArrS(SInt, ArrS(ks, l.Sort)))
		v.L[i] = Select(Select(h, mv), kv)
	}
	ts := wfTerms(v, c.get(st, "$alloc", SInt))
	if len(ts) == 0 {
		return
	}
	saved := c.bound
	c.bound = nil
	c.addFact(Forall([]*Term{mv, kv}, And(ts...), []*Term{v.L[0]}))
	c.bound = saved
}

// mapAxiom states, for a pair of (has, value) map families, that absent keys hold the zero value
// and that the nil map is empty.
func (c *FnCtx) mapAxiom(has, val *Term, ks string, zero *Term) {
	if c.mapAx == nil {
		c.mapAx = map[string]bool{}
	}
	key := has.String() + "|" + val.String()
	if c.mapAx[key] {
		return
	}
	c.mapAx[key] = true
	m := Var("m!x", SInt)
	k := Var("k!x", ks)
	saved := c.bound
	c.bound = nil
	c.addFact(Forall([]*Term{m, k}, Imp(Not(Select(Select(has, m), k)), Eq(Select(Select(val, m), k), zero)), []*Term{Select(Select(val, m), k)}))
	c.addFact(Forall([]*Term{k}, Not(Select(Select(has, IntT(0)), k)), []*Term{Select(Select(has, IntT(0)), k)}))
	c.bound = saved
}

func (c *FnCtx) mapUpdate(st *State, mv Val, key Val, v Val) {
	m := mv.T.Underlying().(*types.Map)
	ks := mapKeySort(m)
	kt := c.mapKey(m, key)
	fam := mapFam(m, "has")
	has := c.get(st, fam, ArrS(SInt, ArrS(ks, SBool)))
	c.set(st, fam, Store(has, mv.L[0], Store(Select(has, mv.L[0]), kt, TTrue)))
	for i, l := range leavesOf(m.Elem()) {
		fam := mapFam(m, fmt.Sprintf("v%d", i))
		h := c.get(st, fam, ArrS(SInt, ArrS(ks, l.Sort)))
		c.set(st, fam, Store(h, mv.L[0], Store(Select(h, mv.L[0]), kt, v.L[i])))
	}
}

func (c *FnCtx) mapNew(st *State, t types.Type) Val {
	m := t.Underlying().(*types.Map)
	ks := mapKeySort(m)
	obj := c.allocObj(st)
	fam := mapFam(m, "has")
	has := c.get(st, fam, ArrS(SInt, ArrS(ks, SBool)))
	c.set(st, fam, Store(has, obj, constArr(ArrS(ks, SBool), TFalse)))
	for i, l := range leavesOf(m.Elem()) {
		fam := mapFam(m, fmt.Sprintf("v%d", i))
		h := c.get(st, fam, ArrS(SInt, ArrS(ks, l.Sort)))
		c.set(st, fam, Store(h, obj, constArr(ArrS(ks, l.Sort), zeroLeaf(l))))
	}
	return Val{T: t, L: []*Term{obj}}
}

// ---- merging ----

type edge struct {
	cond *Term
	st   *State
	from *ssa.BasicBlock
}

func (c *FnCtx) mergeStates(edges []edge) *State {
	if len(edges) == 1 {
		s := edges[0].st.clone()
		s.reach = edges[0].cond
		return s
	}
	var conds []*Term
	keys := map[string]bool{}
	for _, e := range edges {
		conds = append(conds, e.cond)
		for k := range e.st.m {
			keys[k] = true
		}
	}
	out := &State{m: map[string]*Term{}}
	if c.noNaming > 0 {
		out.reach = Or(conds...)
	} else {
		r := c.fresh("reach", SBool)
		c.addFact(Eq(r, Or(conds...)))
		out.reach = r
	}
	ks := make([]string, 0, len(keys))
	for k := range keys {
		ks = append(ks, k)
	}
	sort.Strings(ks)
	for _, k := range ks {
		srt := c.famSort[k]
		var vals []*Term
		same := true
		for _, e := range edges {
			v := c.get(e.st, k, srt)
			vals = append(vals, v)
			if v.String() != vals[0].String() {
				same = false
			}
		}
		if same {
			if _, ok := edges[0].st.m[k]; ok {
				out.m[k] = vals[0]
			}
			continue
		}
		t := vals[len(vals)-1]
		for i := len(vals) - 2; i >= 0; i-- {
			t = Ite(edges[i].cond, vals[i], t)
		}
		if c.noNaming > 0 {
			out.m[k] = t
			continue
		}
		v := c.fresh(k, srt)
		c.addFact(Eq(v, t))
		out.m[k] = v
	}
	return out
}

// ---- modifies locations ----

// modLoc is a set of heap cells: family range [leafLo, leafHi) of root at obj (and idx unless allIdx).
type modLoc struct {
	root     types.Type
	lo, hi   int
	obj, idx *Term
	allIdx   bool
	mapT     *types.Map // map contents of this map ref (obj)
	anyObj   bool       // every object of this root type (whole heap family)
	src      string
}

// havocLoc overwrites the cells of loc with fresh values in st.
func (c *FnCtx) havocLoc(st *State, loc modLoc) {
	if loc.mapT != nil {
		m := loc.mapT
		ks := mapKeySort(m)
		fam := mapFam(m, "has")
		has := c.get(st, fam, ArrS(SInt, ArrS(ks, SBool)))
		c.set(st, fam, Store(has, loc.obj, c.fresh("hv", ArrS(ks, SBool))))
		for i, l := range leavesOf(m.Elem()) {
			fam := mapFam(m, fmt.Sprintf("v%d", i))
			h := c.get(st, fam, ArrS(SInt, ArrS(ks, l.Sort)))
			c.set(st, fam, Store(h, loc.obj, c.fresh("hv", ArrS(ks, l.Sort))))
		}
		return
	}
	rl := leavesOf(loc.root)
	for i := loc.lo; i < loc.hi; i++ {
		fam := heapFam(loc.root, i)
		h := c.get(st, fam, heapSort(rl[i].Sort))
		if loc.anyObj {
			c.set(st, fam, c.fresh("hv", heapSort(rl[i].Sort)))
			continue
		}
		if loc.allIdx {
			c.set(st, fam, Store(h, loc.obj, c.fresh("hv", ArrS(SInt, rl[i].Sort))))
		} else {
			c.set(st, fam, Store(h, loc.obj, Store(Select(h, loc.obj), loc.idx, c.fresh("hv", rl[i].Sort))))
		}
	}
}

// inLocs returns the condition under which cell (root, leaf, obj, idx) lies in locs.
func inLocs(locs []modLoc, root types.Type, leaf int, obj, idx *Term) *Term {
	var alts []*Term
	rk := rootKey(root)
	for _, l := range locs {
		if l.mapT != nil || rootKey(l.root) != rk || leaf < l.lo || leaf >= l.hi {
			continue
		}
		if l.anyObj {
			return TTrue
		}
		if l.allIdx {
			alts = append(alts, Eq(obj, l.obj))
		} else {
			alts = append(alts, And(Eq(obj, l.obj), Eq(idx, l.idx)))
		}
	}
	return Or(alts...)
}

func tagsCover(tags, all []string) bool {
	for _, t := range all {
		if !hasTag(tags, t) {
			return false
		}
	}
	return true
}
