package main

import (
	"fmt"
	"go/ast"
	"go/token"
	"go/types"
	"os"
	"path/filepath"
	"sort"
	"strings"

	"golang.org/x/tools/go/packages"
	"golang.org/x/tools/go/ssa"
	"golang.org/x/tools/go/ssa/ssautil"
)

type Engine struct {
	repo        string
	fset        *token.FileSet
	prog        *ssa.Program
	pkgs        []*packages.Package
	spkgs       map[string]*ssa.Package
	allTypes    []*types.Package
	spec        *SpecFile
	recSigs     map[string]*recSig
	recFamSorts map[string]string
	tags        map[string]int
	tagTypes    []types.Type
	fnIDs       map[*ssa.Function]int
	globIDs     map[*types.Var]int
	specFiles   []string
	globCache   map[string]string
	verifDir    string
}

func LoadEngine(repo string, patterns []string, extraSpecs []string) (*Engine, error) {
	cfg := &packages.Config{
		Mode:       packages.LoadAllSyntax,
		Dir:        repo,
		BuildFlags: []string{"-tags=verif"},
		Env:        append(os.Environ(), "GOFLAGS=-mod=mod", "GOPROXY=off", "GOSUMDB=off", "GOTOOLCHAIN=local"),
	}
	pkgs, err := packages.Load(cfg, patterns...)
	if err != nil {
		return nil, err
	}
	var errs []string
	packages.Visit(pkgs, nil, func(p *packages.Package) {
		for _, e := range p.Errors {
			errs = append(errs, e.Error())
		}
	})
	if len(errs) > 0 {
		return nil, fmt.Errorf("package load errors:\n%s", strings.Join(errs, "\n"))
	}
	prog, spkgs := ssautil.AllPackages(pkgs, ssa.GlobalDebug)
	prog.Build()
	eng := &Engine{repo: repo, prog: prog, pkgs: pkgs, spkgs: map[string]*ssa.Package{}, spec: NewSpecFile(),
		recSigs: map[string]*recSig{}, recFamSorts: map[string]string{}, tags: map[string]int{}, fnIDs: map[*ssa.Function]int{}, globIDs: map[*types.Var]int{}}
	if len(pkgs) > 0 {
		eng.fset = pkgs[0].Fset
	}
	for i, p := range spkgs {
		if p != nil {
			eng.spkgs[pkgs[i].PkgPath] = p
		}
	}
	packages.Visit(pkgs, nil, func(p *packages.Package) {
		if p.Types != nil {
			eng.allTypes = append(eng.allTypes, p.Types)
		}
	})
	sort.Slice(eng.allTypes, func(i, j int) bool { return eng.allTypes[i].Path() < eng.allTypes[j].Path() })
	// contract files: every *_verif.go file of the loaded packages with //@ lines
	for _, p := range pkgs {
		for _, f := range p.GoFiles {
			if strings.HasSuffix(f, "contracts_verif.go") {
				if err := eng.spec.ParseSpecFile(f, p.PkgPath); err != nil {
					return nil, err
				}
				eng.specFiles = append(eng.specFiles, f)
			}
		}
	}
	for _, f := range extraSpecs {
		matches, _ := filepath.Glob(f)
		sort.Strings(matches)
		for _, m := range matches {
			if err := eng.spec.ParseSpecFile(m, ""); err != nil {
				return nil, err
			}
			eng.specFiles = append(eng.specFiles, m)
		}
	}
	if err := eng.mergeInterfaceContracts(); err != nil {
		return nil, err
	}
	// deterministic type tags for all named types (and pointers to them) of the repo packages
	for _, p := range pkgs {
		if p.Types == nil {
			continue
		}
		names := p.Types.Scope().Names()
		for _, n := range names {
			if tn, ok := p.Types.Scope().Lookup(n).(*types.TypeName); ok {
				if _, isIface := tn.Type().Underlying().(*types.Interface); isIface {
					continue
				}
				if tp, ok := tn.Type().(*types.Named); ok && tp.TypeParams().Len() > 0 {
					continue
				}
				eng.typeTag(tn.Type())
				eng.typeTag(types.NewPointer(tn.Type()))
			}
		}
	}
	return eng, nil
}

func (eng *Engine) typesPkg(path string) *types.Package {
	for _, p := range eng.allTypes {
		if p.Path() == path {
			return p
		}
	}
	return nil
}

func (eng *Engine) typeTag(t types.Type) int {
	k := typeKey(t)
	if id, ok := eng.tags[k]; ok {
		return id
	}
	id := len(eng.tags) + 1
	eng.tags[k] = id
	eng.tagTypes = append(eng.tagTypes, t)
	return id
}

func (eng *Engine) knownTypes() []types.Type { return eng.tagTypes }

func (eng *Engine) fnID(f *ssa.Function) int {
	if id, ok := eng.fnIDs[f]; ok {
		return id
	}
	id := len(eng.fnIDs) + 1
	eng.fnIDs[f] = id
	return id
}

func (eng *Engine) globalID(v *types.Var) int {
	if id, ok := eng.globIDs[v]; ok {
		return id
	}
	id := len(eng.globIDs) + 1
	eng.globIDs[v] = id
	return id
}

// findFunc resolves a contract key to the SSA function.
func (eng *Engine) findFunc(pkgPath, key string) *ssa.Function {
	sp := eng.spkgs[pkgPath]
	if sp == nil {
		return nil
	}
	// closures: Name$1
	base := key
	closure := ""
	if i := strings.Index(key, "$"); i >= 0 {
		base, closure = key[:i], key[i:]
	}
	var fn *ssa.Function
	if strings.HasPrefix(base, "(") {
		// method: (*T).M or (T).M
		i := strings.Index(base, ")")
		recv := base[1:i]
		meth := base[i+2:]
		ptr := strings.HasPrefix(recv, "*")
		recv = strings.TrimPrefix(recv, "*")
		if j := strings.Index(recv, "["); j >= 0 {
			recv = recv[:j]
		}
		tn, ok := sp.Pkg.Scope().Lookup(recv).(*types.TypeName)
		if !ok {
			return nil
		}
		var T types.Type = tn.Type()
		if ptr {
			T = types.NewPointer(T)
		}
		ms := types.NewMethodSet(T)
		for i := 0; i < ms.Len(); i++ {
			if ms.At(i).Obj().Name() == meth {
				if f, ok := ms.At(i).Obj().(*types.Func); ok {
					fn = eng.prog.FuncValue(f)
				}
			}
		}
		if fn == nil {
			return nil
		}
	} else {
		fn = sp.Func(base)
		if fn == nil {
			return nil
		}
	}
	if closure != "" {
		want := fn.Name() + closure
		var find func(f *ssa.Function) *ssa.Function
		find = func(f *ssa.Function) *ssa.Function {
			for _, a := range f.AnonFuncs {
				if a.Name() == want {
					return a
				}
				if r := find(a); r != nil {
					return r
				}
			}
			return nil
		}
		return find(fn)
	}
	return fn
}

// newCtx creates a verification context.
func (eng *Engine) newCtx(name string, tags []string, pkg *types.Package) *FnCtx {
	c := &FnCtx{eng: eng, name: name, decls: NewDecls(), famSort: map[string]string{}, lits: map[string]*Term{}, tags: tags,
		assumed: map[string]bool{}, ordinals: map[string]int{}, unfolded: map[string]bool{}, loopW: map[string]map[string]bool{}, pkg: pkg}
	c.entry = &State{m: map[string]*Term{}, reach: TTrue}
	c.famSort["$alloc"] = SInt
	return c
}

type FuncResult struct {
	Key       string
	Name      string
	Tags      []string
	Obls      []*Obligation
	Undecided string // non-empty: function could not be processed
	Assumed   []string
	Notes     []string
	Pos       string
	PathCovers []*Obligation // informational: reachability of each return path
}

// VerifyFunc generates the obligations of one function under contract.
func (eng *Engine) VerifyFunc(key string) (res *FuncResult) {
	fs := eng.spec.Funcs[key]
	res = &FuncResult{Key: key, Name: fs.Key, Tags: fs.Tags}
	fn := eng.findFunc(fs.Pkg, fs.Key)
	if fn == nil {
		res.Undecided = "function not found in the current tree"
		return
	}
	res.Pos = eng.fset.Position(fn.Pos()).String()
	defer func() {
		if r := recover(); r != nil {
			if u, ok := r.(unsupported); ok {
				res.Undecided = string(u)
				res.Obls = nil
				return
			}
			panic(r)
		}
	}()
	// pass 1: which families does each loop write?
	c1 := eng.newCtx(fs.Key, fs.Tags, pkgOf(fn))
	c1.pass1 = true
	c1.spec = fs
	c1.fn = fn
	eng.runTop(c1, fn, fs)
	// pass 2
	c := eng.newCtx(fs.Key, fs.Tags, pkgOf(fn))
	c.spec = fs
	c.fn = fn
	c.loopW = c1.loopW
	for k, v := range c1.famSort {
		c.famSort[k] = v
	}
	eng.runTop(c, fn, fs)
	res.Obls = c.obls
	res.Assumed = sortedKeys(c.assumed)
	res.Notes = c.notes
	res.PathCovers = c.pathCovers
	return
}

func (eng *Engine) runTop(c *FnCtx, fn *ssa.Function, fs *FuncSpec) {
	st := c.entry.clone()
	alloc0 := c.get(st, "$alloc", SInt)
	c.addFact(Gt(alloc0, IntT(int64(1000))))
	var args []Val
	for i, p := range fn.Params {
		v := c.freshVal(p.Name(), p.Type())
		c.wellFormed(TTrue, v, st)
		if i == 0 && fn.Signature.Recv() != nil && v.IsPtr() {
			c.addFact(Gt(v.L[0], IntT(0)))
		}
		if fs != nil && fs.Sweep {
			switch p.Type().Underlying().(type) {
			case *types.Pointer, *types.Map, *types.Interface, *types.Signature:
				c.addFact(Not(Eq(v.L[0], IntT(0))))
			}
		}
		args = append(args, v)
	}
	f := &frame{c: c, fn: fn, spec: fs, top: true, prefix: ""}
	f.params = args
	// closures: free variables (captured by reference: the free variable is a pointer to the captured cell)
	var bindings []Val
	for _, fv := range fn.FreeVars {
		b := c.freshVal(fv.Name(), fv.Type())
		c.wellFormed(TTrue, b, st)
		if b.IsPtr() {
			c.addFact(Gt(b.L[0], IntT(0)))
		}
		bindings = append(bindings, b)
	}
	f.bindings = bindings
	f.vals = map[ssa.Value]Val{}
	env := f.callEnv(fn, fs, args, nil, st, c.entry)
	freeLookup := func(cur *State) func(name string) (Val, bool) {
		return func(name string) (Val, bool) {
			for i, fv := range fn.FreeVars {
				if fv.Name() == name {
					b := bindings[i]
					if b.IsPtr() {
						return c.loadPtr(cur, b, elemType(b.T)), true
					}
					return b, true
				}
			}
			return Val{}, false
		}
	}
	env.lookup = freeLookup(st)
	for _, g := range fs.Ghosts {
		env.vars[g.Name] = c.freshVal("ghost_"+g.Name, eng.resolveType(env.pkg, g.Type))
	}
	ghosts := map[string]Val{}
	for _, g := range fs.Ghosts {
		ghosts[g.Name] = env.vars[g.Name]
	}
	c.ghosts0 = map[string]Val{}
	c.ghostBlk = map[string]*ssa.BasicBlock{}
	for _, l := range fs.Lets {
		ghosts[l.Name] = c.freshVal("let_"+l.Name, eng.resolveType(env.pkg, l.Type))
		if l.Default != nil {
			// the value on paths that do not pass the call site
			d := env.eval(l.Default)
			if id, ok := l.Default.(*ast.Ident); ok && id.Name == "nil" {
				d = zeroVal(ghosts[l.Name].T)
			}
			if len(d.L) == len(ghosts[l.Name].L) {
				d.T = ghosts[l.Name].T
				ghosts[l.Name] = d
			} else {
				panic(specErr("let %s: the default does not have the ghost's type", l.Name))
			}
		}
		c.ghosts0[l.Name] = ghosts[l.Name]
	}
	c.ghosts = ghosts
	c.modLocs = env.evalModLocs(fs.Modifies, fs.ModSrc)
	c.hasMod = true
	if len(fs.FrameTags) > 0 {
		// the frame obligations only show that writes stay inside the modifies clause: the clause itself must not
		// name memory of a shared type (parser, grammar node, lexer definition)
		for _, l := range c.modLocs {
			goal := TTrue
			what := l.src
			if l.mapT != nil {
				if sharedType(l.mapT.Elem()) {
					goal = TFalse
				}
			} else if l.root != nil && sharedType(l.root) {
				goal = TFalse
			}
			c.oblige("frame", "modifies-root", c.tags, TTrue, goal, f.pos(fn.Pos()), "the modifies clause ("+what+") names per-call memory, not an object of a shared type")
		}
	}
	for _, r := range fs.Requires {
		c.addFact(env.evalBool(r.Expr))
	}
	eng.assumeGlobals(c, st)
	entryEnv := *env
	f.spec = fs
	// lemma uses at entry
	for _, u := range fs.Uses {
		if u.At == "entry" {
			c.useLemma(u, &entryEnv)
		}
	}
	c.hookHits = map[string]bool{}
	rets := f.run(args, st)
	// a call-site clause that matches no call site would be vacuous
	for _, a := range fs.Asserts {
		if k := fmt.Sprintf("call %s#%d", a.Callee, a.Ordinal); !c.hookHits[k] {
			panic(specErr("clause at %s matches no call site of %s (callee keys are package-qualified, e.g. (*lexer.PeekingLexer).Next)", k, fs.Key))
		}
	}
	for _, a := range fs.AfterLoop {
		if a.Ordinal >= 0 && !c.pass1 && !c.hookHits[fmt.Sprintf("after loop %d", a.Ordinal)] {
			panic(specErr("clause \"after loop %d\" found no exit block of that loop in %s", a.Ordinal, fs.Key))
		}
	}
	for _, l := range fs.Lets {
		if k := fmt.Sprintf("call %s#%d", l.Callee, l.Ordinal); !c.hookHits[k] {
			panic(specErr("let %s: %s matches no call site of %s", l.Name, k, fs.Key))
		}
	}
	// vacuity cover: some return is reachable
	var anyRet []*Term
	for _, r := range rets {
		if r.panics {
			continue
		}
		anyRet = append(anyRet, r.cond)
		renv := f.callEnv(fn, fs, args, r.results, r.st, c.entry)
		for k := range ghosts {
			renv.vars[k] = c.ghostAt(k, r.blk)
		}
		renv.lookup = freeLookup(r.st)
		renv.entry = f.entryParams()
		for k := range renv.vars {
			delete(renv.entry, k) // parameters keep their own treatment (vars hold the entry arguments)
		}
		for _, u := range fs.Uses {
			if u.At == "exit" {
				c.useLemma(u, renv)
			}
		}
		for i, en := range fs.Ensures {
			label := en.Name
			if label == "" {
				label = fmt.Sprintf("ensures%d", i+1)
			}
			c.oblige("ensures", label, clauseTags(en, c.tags), r.cond, renv.evalBool(en.Expr), f.pos(fn.Pos()), en.Src)
		}
		for _, fr := range fs.Fresh {
			v, ok := renv.vars[fr]
			if !ok {
				panic(specErr("fresh: unknown result %s", fr))
			}
			ref := v.L[0]
			c.oblige("ensures", "fresh:"+fr, c.tags, r.cond, Or(Eq(ref, IntT(0)), Ge(ref, c.get(c.entry, "$alloc", SInt))), f.pos(fn.Pos()), "result "+fr+" is freshly allocated")
		}
	}
	if !c.pass1 && len(fs.NoRecursion) > 0 {
		tags := fs.NoRecursion
		if len(tags) == 1 && tags[0] == "*" {
			tags = c.tags
		}
		cyc := eng.staticCycle(fn)
		goal := TTrue
		src := "the function does not reach itself through static calls (bounded stack)"
		if cyc != "" {
			goal = TFalse
			src += ": cycle " + cyc
		}
		c.oblige("no-recursion", "", tags, TTrue, goal, f.pos(fn.Pos()), src)
	}
	// reachability covers per return path: a return that is unreachable under the contract's assumptions
	// signals contradictory assumptions on that path (reported as a note, and as a failure only when every
	// return is dead, see cover#return)
	if !c.pass1 {
		n := 0
		for _, r := range rets {
			if r.panics {
				continue
			}
			n++
			o := &Obligation{Name: fmt.Sprintf("%s/cover#return%d", c.name, n), Kind: "cover-path", Func: c.name, Tags: c.tags, Goal: TFalse, Guard: r.cond, NFacts: len(c.facts), Cover: true, ctx: c, Src: fmt.Sprintf("return path %d is reachable under the contract (informational)", n)}
			c.pathCovers = append(c.pathCovers, o)
		}
	}
	if !c.pass1 {
		o := &Obligation{Name: c.name + "/cover#return", Kind: "cover", Func: c.name, Tags: c.tags, Goal: TFalse, Guard: Or(anyRet...), NFacts: len(c.facts), Cover: true, ctx: c, Src: "some return is reachable under the contract (vacuity guard)"}
		c.obls = append(c.obls, o)
	}
}

// ---- lemmas ----

func (eng *Engine) VerifyLemma(name string) (res *FuncResult) {
	lm := eng.spec.Lemmas[name]
	res = &FuncResult{Key: "lemma:" + name, Name: "lemma " + name, Tags: lm.Tags}
	if lm.Trusted {
		return
	}
	defer func() {
		if r := recover(); r != nil {
			if u, ok := r.(unsupported); ok {
				res.Undecided = string(u)
				res.Obls = nil
				return
			}
			panic(r)
		}
	}()
	pkg := eng.lemmaPkg(lm)
	c := eng.newCtx("lemma "+name, lm.Tags, pkg)
	st := c.entry
	vars := map[string]Val{}
	for _, p := range lm.Params {
		v := c.freshVal(p.Name, eng.resolveType(pkg, p.Type))
		c.wellFormed(TTrue, v, st)
		vars[p.Name] = v
	}
	env := &Env{c: c, vars: vars, cur: st, old: st, pkg: pkg, guard: TTrue}
	evalAll := func(e *Env, cs []Clause) *Term {
		var ts []*Term
		for _, cl := range cs {
			ts = append(ts, e.evalBool(cl.Expr))
		}
		return And(ts...)
	}
	for _, u := range lm.Uses {
		c.useLemma(u, env)
	}
	if lm.IndVar == "" {
		c.addFact(evalAll(env, lm.Requires))
		c.oblige("lemma", name, lm.Tags, TTrue, evalAll(env, lm.Ensures), lm.File, "lemma "+name)
	} else {
		iv := vars[lm.IndVar]
		base := env.eval(lm.IndBase).term()
		// induction hypothesis for IndVar-1
		prev := env.with(map[string]Val{lm.IndVar: {T: iv.T, L: []*Term{Sub(iv.term(), IntT(1))}}})
		ih := Imp(And(Gt(iv.term(), base), evalAll(prev, lm.Requires)), evalAll(prev, lm.Ensures))
		c.addFact(ih)
		c.addFact(Ge(iv.term(), base))
		c.addFact(evalAll(env, lm.Requires))
		c.oblige("lemma", name, lm.Tags, TTrue, evalAll(env, lm.Ensures), lm.File, "lemma "+name+" (induction on "+lm.IndVar+")")
	}
	res.Obls = c.obls
	res.Assumed = sortedKeys(c.assumed)
	res.Notes = c.notes
	return
}

func (eng *Engine) lemmaPkg(lm *Lemma) *types.Package {
	if lm.Pkg != "" {
		if p := eng.typesPkg(lm.Pkg); p != nil {
			return p
		}
	}
	for _, p := range eng.pkgs {
		for _, f := range p.GoFiles {
			if f == lm.File {
				return p.Types
			}
		}
	}
	return nil
}

// assumeGlobals adds the "global <expr>" facts (initial values of package variables that are never
// stored to outside init) to a context.
func (eng *Engine) assumeGlobals(c *FnCtx, st *State) {
	for _, g := range eng.spec.Globals {
		pkg := eng.typesPkg(g.Name)
		if pkg == nil {
			continue
		}
		if bad := eng.globalsMutated(g, pkg); bad != "" {
			c.note("global fact dropped (" + g.Src + "): " + bad)
			continue
		}
		env := &Env{c: c, vars: map[string]Val{}, cur: st, old: st, pkg: pkg, guard: TTrue}
		c.addFact(env.evalBool(g.Expr))
		c.assumed["global-initial-value: "+g.Src] = true
	}
}

// globalsMutated reports a store to any package variable mentioned in the clause outside init.
func (eng *Engine) globalsMutated(g Clause, pkg *types.Package) string {
	if eng.globCache == nil {
		eng.globCache = map[string]string{}
	}
	if r, ok := eng.globCache[g.Src]; ok {
		return r
	}
	res := ""
	sp := eng.spkgs[pkg.Path()]
	names := map[string]bool{}
	ast.Inspect(g.Expr, func(n ast.Node) bool {
		if id, ok := n.(*ast.Ident); ok {
			if _, isVar := pkg.Scope().Lookup(id.Name).(*types.Var); isVar {
				names[id.Name] = true
			}
		}
		return true
	})
	if sp != nil {
		var fns []*ssa.Function
		for _, m := range sp.Members {
			if f, ok := m.(*ssa.Function); ok {
				fns = append(fns, f)
			}
			if t, ok := m.(*ssa.Type); ok {
				for _, T := range []types.Type{t.Type(), types.NewPointer(t.Type())} {
					ms := eng.prog.MethodSets.MethodSet(T)
					for i := 0; i < ms.Len(); i++ {
						if f := eng.prog.MethodValue(ms.At(i)); f != nil {
							fns = append(fns, f)
						}
					}
				}
			}
		}
		var visit func(f *ssa.Function)
		seen := map[*ssa.Function]bool{}
		visit = func(f *ssa.Function) {
			if seen[f] || f == nil {
				return
			}
			seen[f] = true
			if f.Name() != "init" {
				for _, b := range f.Blocks {
					for _, in := range b.Instrs {
						if s, ok := in.(*ssa.Store); ok {
							if gl := rootGlobal(s.Addr); gl != nil && names[gl.Name()] {
								res = "stored to in " + f.String()
							}
						}
					}
				}
			}
			for _, a := range f.AnonFuncs {
				visit(a)
			}
		}
		for _, f := range fns {
			visit(f)
		}
	}
	eng.globCache[g.Src] = res
	return res
}

func rootGlobal(v ssa.Value) *ssa.Global {
	switch t := v.(type) {
	case *ssa.Global:
		return t
	case *ssa.FieldAddr:
		return rootGlobal(t.X)
	case *ssa.IndexAddr:
		return rootGlobal(t.X)
	}
	return nil
}

// mergeInterfaceContracts folds the interface contract named by "implements" into each implementing
// method's contract (behavioural subtyping): interface requires/modifies/ensures become part of the method's
// contract, both when the method itself is verified and at static call sites of the method.
func (eng *Engine) mergeInterfaceContracts() error {
	for _, k := range eng.spec.Order {
		fs := eng.spec.Funcs[k]
		if fs.Implements == "" {
			continue
		}
		ifs := eng.spec.Funcs[fs.Pkg+"::iface:"+fs.Implements]
		if ifs == nil {
			return fmt.Errorf("%s: implements: no interface contract %s", fs.Key, fs.Implements)
		}
		fs.Params = ifs.Params
		fs.Requires = append(append([]Clause{}, ifs.Requires...), fs.Requires...)
		for i, en := range ifs.Ensures {
			c := en
			if c.Name == "" {
				c.Name = fmt.Sprintf("%s.ensures%d", fs.Implements, i+1)
			}
			c.Src = "interface contract " + fs.Implements + ": " + en.Src
			fs.Ensures = append(fs.Ensures, c)
		}
		fs.Modifies = append(fs.Modifies, ifs.Modifies...)
		fs.ModSrc = append(fs.ModSrc, ifs.ModSrc...)
	}
	return nil
}

// staticCycle reports a static call cycle through fn ("" if none).
func (eng *Engine) staticCycle(fn *ssa.Function) string {
	seen := map[*ssa.Function]bool{}
	var path []string
	var dfs func(f *ssa.Function) bool
	dfs = func(f *ssa.Function) bool {
		if f == nil || len(f.Blocks) == 0 {
			return false
		}
		inRepo := f.Pkg != nil && strings.HasPrefix(f.Pkg.Pkg.Path(), repoModule)
		if !inRepo && f.Parent() == nil {
			return false
		}
		for _, b := range f.Blocks {
			for _, in := range b.Instrs {
				var common *ssa.CallCommon
				switch t := in.(type) {
				case *ssa.Call:
					common = &t.Call
				case *ssa.Defer:
					common = &t.Call
				case *ssa.Go:
					common = &t.Call
				case *ssa.MakeClosure:
					if cf, ok := t.Fn.(*ssa.Function); ok && !seen[cf] {
						seen[cf] = true
						if dfs(cf) {
							return true
						}
					}
					continue
				default:
					continue
				}
				callee := common.StaticCallee()
				if callee == nil {
					continue
				}
				if callee == fn {
					path = append(path, f.Name()+" -> "+fn.Name())
					return true
				}
				if !seen[callee] {
					seen[callee] = true
					if dfs(callee) {
						return true
					}
				}
			}
		}
		return false
	}
	if dfs(fn) {
		return strings.Join(path, ", ")
	}
	return ""
}
