package main

import (
	"bufio"
	"bytes"
	"context"
	"encoding/json"
	"fmt"
	"os"
	"os/exec"
	"path/filepath"
	"strings"
	"time"
)

// runOverlayTests runs in-package tests of /verif/bounded/<dir> against the repository's current working tree.
func runOverlayTests(repo, verif, dir, runRegex, tier string, timeoutSec int) (string, error) {
	src := filepath.Join(verif, "bounded", dir)
	files, _ := filepath.Glob(filepath.Join(src, "*_test.go"))
	if len(files) == 0 {
		return "", fmt.Errorf("no stand-ins in %s", src)
	}
	overlay := map[string]map[string]string{"Replace": {}}
	pkgDir := filepath.Join(repo, boundedDirs[dir])
	for _, f := range files {
		overlay["Replace"][filepath.Join(pkgDir, filepath.Base(f))] = f
	}
	tmp, _ := os.MkdirTemp("", "vcgo-overlay")
	defer os.RemoveAll(tmp)
	ovFile := filepath.Join(tmp, "overlay.json")
	ob, _ := json.Marshal(overlay)
	os.WriteFile(ovFile, ob, 0o644)
	ctx, cancel := context.WithTimeout(context.Background(), time.Duration(timeoutSec+30)*time.Second)
	defer cancel()
	cmd := exec.CommandContext(ctx, "go", "test", "-overlay", ovFile, "-tags", "verif", "-vet=off", "-count=1", "-v",
		fmt.Sprintf("-timeout=%ds", timeoutSec), "-run", runRegex, "./"+boundedDirs[dir])
	cmd.Dir = repo
	cmd.Env = append(os.Environ(), "GOFLAGS=-mod=mod", "GOPROXY=off", "GOSUMDB=off", "GOTOOLCHAIN=local", "VERIF_TIER="+tier, "VERIF_DIR="+verif)
	var out bytes.Buffer
	cmd.Stdout = &out
	cmd.Stderr = &out
	err := cmd.Run()
	return out.String(), err
}

type probeOut struct {
	Probe    string   `json:"probe"`
	Tried    int      `json:"tried"`
	Failures []string `json:"failures"`
}

// probesFor names the counterexample probes relevant to a function under contract.
func probesFor(fn string) [][2]string {
	switch {
	case strings.Contains(fn, "PeekingLexer") || fn == "Upgrade" || strings.Contains(fn, "Checkpoint") || strings.HasPrefix(fn, "lemma cnt"):
		return [][2]string{{"lexer", "TestVerifProbe_PeekingLexer"}, {"root", "TestVerifProbe_Parse"}}
	case strings.Contains(fn, "Position).Advance"):
		return [][2]string{{"lexer", "TestVerifProbe_Advance"}, {"lexer", "TestVerifProbe_StatefulNext"}}
	case strings.Contains(fn, "Stateful") || strings.Contains(fn, "applyAction") || fn == "BackrefRegex" || fn == "NewSimple" || fn == "ConsumeAll" || fn == "EOFToken":
		return [][2]string{{"lexer", "TestVerifProbe_StatefulNext"}}
	case fn == "conform" || fn == "sizeOfKind" || fn == "setField" || fn == "allStrings":
		return [][2]string{{"root", "TestVerif_C17_NumericOracle"}, {"root", "TestVerifProbe_Parse"}}
	default:
		return [][2]string{{"root", "TestVerifProbe_Parse"}}
	}
}

var probeCache = map[string][]string{}

// runProbe returns the failing inputs a probe finds on the current tree (cached per run).
func runProbe(repo, verif, dir, test string) []string {
	key := dir + "/" + test
	if r, ok := probeCache[key]; ok {
		return r
	}
	out, _ := runOverlayTests(repo, verif, dir, "^"+test+"$", "quick", 300)
	var fails []string
	sc := bufio.NewScanner(strings.NewReader(out))
	sc.Buffer(make([]byte, 1<<20), 1<<26)
	for sc.Scan() {
		line := sc.Text()
		if i := strings.Index(line, "VERIF-PROBE "); i >= 0 {
			var p probeOut
			if json.Unmarshal([]byte(line[i+12:]), &p) == nil {
				fails = append(fails, p.Failures...)
			}
		}
		if i := strings.Index(line, "VERIF-RESULT "); i >= 0 {
			var r BoundedResult
			if json.Unmarshal([]byte(line[i+13:]), &r) == nil {
				fails = append(fails, r.Violations...)
			}
		}
	}
	if len(fails) == 0 && strings.Contains(out, "panic:") {
		i := strings.Index(out, "panic:")
		fails = append(fails, "the probe crashed in the code under test: "+firstLine(out[i:]))
	}
	probeCache[key] = fails
	return fails
}

func init() {
	findCounterexample = func(eng *Engine, o *Obligation, smtDir string) *counterexample {
		verif := eng.verifDir
		if verif == "" {
			verif = "/verif"
		}
		for _, pb := range probesFor(o.Func) {
			fails := runProbe(eng.repo, verif, pb[0], pb[1])
			if len(fails) > 0 {
				return &counterexample{
					Input:     map[string]any{"probe": pb[1], "package": boundedDirs[pb[0]], "failing_input": fails[0], "further_failing_inputs": fails[1:]},
					Outcome:   "the probe ran the real code of /repo (go test -overlay, nothing written to the repository) and observed: " + fails[0],
					Confirmed: true,
				}
			}
		}
		return nil
	}
}

// cmdReplay re-runs the probe or bounded stand-in recorded in a replay file against the current tree.
func cmdReplay(args []string) {
	if len(args) < 1 {
		fmt.Fprintln(os.Stderr, "usage: vcgo replay <file>")
		os.Exit(2)
	}
	b, err := os.ReadFile(args[0])
	if err != nil {
		fmt.Fprintln(os.Stderr, err)
		os.Exit(2)
	}
	var rf map[string]any
	json.Unmarshal(b, &rf)
	prop, _ := rf["property"].(string)
	fmt.Printf("replay of %s: obligation %v\n", args[0], rf["obligation"])
	verif := "/verif"
	repo := "/repo"
	if in, ok := rf["failing_input"].(map[string]any); ok {
		probe, _ := in["probe"].(string)
		pkg, _ := in["package"].(string)
		dir := "root"
		for d, p := range boundedDirs {
			if p == pkg {
				dir = d
			}
		}
		fails := runProbe(repo, verif, dir, probe)
		want, _ := in["failing_input"].(string)
		for _, f := range fails {
			if f == want {
				fmt.Printf("REPRODUCED on the current tree: %s\n", f)
				fmt.Printf("VIOLATION property=%s replay=%s\n", prop, args[0])
				os.Exit(1)
			}
		}
		if len(fails) > 0 {
			fmt.Printf("the recorded input no longer fails, but the probe finds: %s\n", fails[0])
			fmt.Printf("VIOLATION property=%s replay=%s\n", prop, args[0])
			os.Exit(1)
		}
		fmt.Println("not reproduced: the probe passes on the current tree")
		os.Exit(0)
	}
	if s, ok := rf["failing_input"].(string); ok && strings.HasPrefix(fmt.Sprint(rf["obligation"]), "bounded:") {
		fmt.Printf("recorded failing input of a bounded stand-in: %s\nre-running the check of property %s\n", s, prop)
		cmd := exec.Command(filepath.Join(verif, "check"), prop)
		cmd.Stdout, cmd.Stderr = os.Stdout, os.Stderr
		if err := cmd.Run(); err != nil {
			os.Exit(1)
		}
		os.Exit(0)
	}
	fmt.Println("this replay file records a failed proof obligation without a concrete input (no-failing-input-found); re-running the property's check")
	cmd := exec.Command(filepath.Join(verif, "check"), prop)
	cmd.Stdout, cmd.Stderr = os.Stdout, os.Stderr
	if err := cmd.Run(); err != nil {
		os.Exit(1)
	}
}
