package main

import (
	"flag"
	"fmt"
	"os"
	"sort"
	"strings"
	"time"
)

func main() {
	if len(os.Args) < 2 {
		fmt.Fprintln(os.Stderr, "usage: vcgo prove|check|list ...")
		os.Exit(2)
	}
	switch os.Args[1] {
	case "prove":
		cmdProve(os.Args[2:])
	case "check":
		cmdCheck(os.Args[2:])
	case "replay":
		cmdReplay(os.Args[2:])
	case "sweep":
		cmdSweep(os.Args[2:])
	default:
		fmt.Fprintln(os.Stderr, "unknown command", os.Args[1])
		os.Exit(2)
	}
}

func hasTag(tags []string, t string) bool {
	for _, x := range tags {
		if x == t {
			return true
		}
	}
	return false
}

// cmdProve: developer loop. vcgo prove [-repo /repo] [-func substr] [-prop Cxx] [-dump dir] [-v]
func cmdProve(args []string) {
	fl := flag.NewFlagSet("prove", flag.ExitOnError)
	repo := fl.String("repo", "/repo", "repository root")
	fn := fl.String("func", "", "only functions whose key contains this")
	prop := fl.String("prop", "", "only functions tagged with this property")
	dump := fl.String("dump", "", "directory for .smt2 files")
	verbose := fl.Bool("v", false, "verbose")
	quick := fl.Int("quick", 3, "first-try timeout (s)")
	race := fl.Int("race", 10, "race timeout (s)")
	stubs := fl.String("stubs", "/verif/stubs/*.spec", "stub spec files")
	fl.Parse(args)
	t0 := time.Now()
	eng, err := LoadEngine(*repo, []string{".", "./lexer", "./ebnf"}, []string{*stubs})
	if err != nil {
		fmt.Fprintln(os.Stderr, "load:", err)
		os.Exit(2)
	}
	fmt.Printf("loaded in %.1fs; %d contracts, %d spec fns, %d lemmas\n", time.Since(t0).Seconds(), len(eng.spec.Funcs), len(eng.spec.Fns), len(eng.spec.Lemmas))
	dir := *dump
	if dir == "" {
		dir, _ = os.MkdirTemp("", "vcgo")
		defer os.RemoveAll(dir)
	} else {
		os.MkdirAll(dir, 0o755)
	}
	var results []*FuncResult
	for _, name := range sortedKeys(eng.spec.Lemmas) {
		lm := eng.spec.Lemmas[name]
		if *fn != "" && !strings.Contains("lemma "+name, *fn) {
			continue
		}
		if *prop != "" && !hasTag(lm.Tags, *prop) {
			continue
		}
		results = append(results, eng.VerifyLemma(name))
	}
	for _, key := range eng.spec.Order {
		fs := eng.spec.Funcs[key]
		if fs.Trusted || strings.HasPrefix(fs.Key, "iface:") || fs.Inline {
			continue
		}
		if *fn != "" && !strings.Contains(key, *fn) {
			continue
		}
		if *prop != "" && !hasTag(fs.Tags, *prop) {
			continue
		}
		results = append(results, eng.VerifyFunc(key))
	}
	var all []*Obligation
	for _, r := range results {
		all = append(all, r.Obls...)
	}
	fmt.Printf("generated %d obligations in %.1fs\n", len(all), time.Since(t0).Seconds())
	solveAll(all, dir, *quick, *race, 12)
	nfail := 0
	for _, r := range results {
		if r.Undecided != "" {
			fmt.Printf("UNDECIDED %s: %s\n", r.Key, r.Undecided)
			continue
		}
		ok := 0
		for _, o := range r.Obls {
			if o.Status == "discharged" {
				ok++
			}
		}
		fmt.Printf("%-50s %d/%d\n", r.Name, ok, len(r.Obls))
		for _, o := range r.Obls {
			if o.Status != "discharged" {
				nfail++
				fmt.Printf("   FAILED %s [%s] %s  -- %s  (%s, %dms) %s\n", o.Name, strings.Join(o.Tags, ","), o.Pos, o.Src, o.Solver, o.Millis, o.Output)
			} else if *verbose {
				fmt.Printf("   ok     %s (%s, %dms)\n", o.Name, o.Solver, o.Millis)
			}
		}
		if *verbose {
			for _, n := range r.Notes {
				fmt.Printf("   note: %s\n", n)
			}
			sort.Strings(r.Assumed)
			fmt.Printf("   assumed: %s\n", strings.Join(r.Assumed, ", "))
		}
	}
	fmt.Printf("total %.1fs, %d failed\n", time.Since(t0).Seconds(), nfail)
}

