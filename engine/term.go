package main

import (
	"fmt"
	"sort"
	"strconv"
	"strings"
)

// Term is an SMT-LIB term with a sort annotation (sort as SMT-LIB text).
type Term struct {
	Op   string  // operator / constant / variable name
	Args []*Term // nil for leaves
	S    string  // sort: "Int", "Bool", "Str", "(Array Int Int)", ...
	// for quantifiers: Op = "forall"/"exists", Bound holds the variables, Args[0] body, Pats triggers
	Bound []*Term
	Pats  [][]*Term
	str   string
}

const (
	SInt  = "Int"
	SBool = "Bool"
	SStr  = "Str"
)

func ArrS(idx, elem string) string { return "(Array " + idx + " " + elem + ")" }

// ArrElem returns the element sort of an array sort.
func ArrElem(s string) string {
	// "(Array I E)" ; I is Int or Str in this project
	s = strings.TrimPrefix(s, "(Array ")
	s = strings.TrimSuffix(s, ")")
	i := strings.Index(s, " ")
	return s[i+1:]
}
func ArrIdx(s string) string {
	s = strings.TrimPrefix(s, "(Array ")
	i := strings.Index(s, " ")
	return s[:i]
}

var (
	TTrue  = &Term{Op: "true", S: SBool}
	TFalse = &Term{Op: "false", S: SBool}
)

func IntT(n int64) *Term {
	if n < 0 {
		return &Term{Op: "-", Args: []*Term{{Op: strconv.FormatInt(-n, 10), S: SInt}}, S: SInt}
	}
	return &Term{Op: strconv.FormatInt(n, 10), S: SInt}
}

func BigIntT(dec string) *Term {
	if strings.HasPrefix(dec, "-") {
		return &Term{Op: "-", Args: []*Term{{Op: dec[1:], S: SInt}}, S: SInt}
	}
	return &Term{Op: dec, S: SInt}
}

func BoolT(b bool) *Term {
	if b {
		return TTrue
	}
	return TFalse
}

func Var(name, sort string) *Term { return &Term{Op: name, S: sort} }

func App(op, sort string, args ...*Term) *Term { return &Term{Op: op, Args: args, S: sort} }

func (t *Term) IsConstInt() (int64, bool) {
	if t.S != SInt {
		return 0, false
	}
	if len(t.Args) == 0 {
		n, err := strconv.ParseInt(t.Op, 10, 64)
		if err == nil {
			return n, true
		}
		return 0, false
	}
	if t.Op == "-" && len(t.Args) == 1 {
		if n, ok := t.Args[0].IsConstInt(); ok {
			return -n, true
		}
	}
	return 0, false
}

func (t *Term) String() string {
	if t.str != "" {
		return t.str
	}
	var sb strings.Builder
	t.write(&sb)
	t.str = sb.String()
	return t.str
}

func (t *Term) write(sb *strings.Builder) {
	if t.str != "" {
		sb.WriteString(t.str)
		return
	}
	if t.Op == "forall" || t.Op == "exists" {
		sb.WriteString("(" + t.Op + " (")
		for _, b := range t.Bound {
			sb.WriteString("(" + b.Op + " " + b.S + ") ")
		}
		sb.WriteString(") ")
		if len(t.Pats) > 0 {
			sb.WriteString("(! ")
		}
		t.Args[0].write(sb)
		if len(t.Pats) > 0 {
			for _, p := range t.Pats {
				sb.WriteString(" :pattern (")
				for i, x := range p {
					if i > 0 {
						sb.WriteString(" ")
					}
					x.write(sb)
				}
				sb.WriteString(")")
			}
			sb.WriteString(")")
		}
		sb.WriteString(")")
		return
	}
	if len(t.Args) == 0 {
		sb.WriteString(t.Op)
		return
	}
	sb.WriteString("(")
	sb.WriteString(t.Op)
	for _, a := range t.Args {
		sb.WriteString(" ")
		a.write(sb)
	}
	sb.WriteString(")")
}

func Eq(a, b *Term) *Term {
	if a == b || a.String() == b.String() {
		return TTrue
	}
	if a.S == SBool {
		if a == TTrue {
			return b
		}
		if b == TTrue {
			return a
		}
		if a == TFalse {
			return Not(b)
		}
		if b == TFalse {
			return Not(a)
		}
	}
	if x, ok := a.IsConstInt(); ok {
		if y, ok := b.IsConstInt(); ok {
			return BoolT(x == y)
		}
	}
	return App("=", SBool, a, b)
}

func Not(a *Term) *Term {
	if a == TTrue {
		return TFalse
	}
	if a == TFalse {
		return TTrue
	}
	if a.Op == "not" {
		return a.Args[0]
	}
	return App("not", SBool, a)
}

func And(xs ...*Term) *Term {
	var out []*Term
	for _, x := range xs {
		if x == nil || x == TTrue {
			continue
		}
		if x == TFalse {
			return TFalse
		}
		if x.Op == "and" {
			out = append(out, x.Args...)
			continue
		}
		out = append(out, x)
	}
	if len(out) == 0 {
		return TTrue
	}
	if len(out) == 1 {
		return out[0]
	}
	return App("and", SBool, out...)
}

func Or(xs ...*Term) *Term {
	var out []*Term
	for _, x := range xs {
		if x == nil || x == TFalse {
			continue
		}
		if x == TTrue {
			return TTrue
		}
		if x.Op == "or" {
			out = append(out, x.Args...)
			continue
		}
		out = append(out, x)
	}
	if len(out) == 0 {
		return TFalse
	}
	if len(out) == 1 {
		return out[0]
	}
	return App("or", SBool, out...)
}

func Imp(a, b *Term) *Term {
	if a == TTrue {
		return b
	}
	if a == TFalse || b == TTrue {
		return TTrue
	}
	if b == TFalse {
		return Not(a)
	}
	return App("=>", SBool, a, b)
}

func Ite(c, a, b *Term) *Term {
	if c == TTrue {
		return a
	}
	if c == TFalse {
		return b
	}
	if a == b || a.String() == b.String() {
		return a
	}
	if a.S == SBool {
		if a == TTrue && b == TFalse {
			return c
		}
		if a == TFalse && b == TTrue {
			return Not(c)
		}
	}
	return App("ite", a.S, c, a, b)
}

func arith(op string, a, b *Term) *Term {
	x, ok1 := a.IsConstInt()
	y, ok2 := b.IsConstInt()
	if ok1 && ok2 {
		switch op {
		case "+":
			return IntT(x + y)
		case "-":
			return IntT(x - y)
		case "*":
			return IntT(x * y)
		}
	}
	if op == "+" {
		if ok1 && x == 0 {
			return b
		}
		if ok2 && y == 0 {
			return a
		}
	}
	if op == "-" && ok2 && y == 0 {
		return a
	}
	if op == "*" {
		if ok1 && x == 1 {
			return b
		}
		if ok2 && y == 1 {
			return a
		}
	}
	return App(op, SInt, a, b)
}

func Add(a, b *Term) *Term { return arith("+", a, b) }
func Sub(a, b *Term) *Term { return arith("-", a, b) }
func Mul(a, b *Term) *Term { return arith("*", a, b) }
func Neg(a *Term) *Term {
	if x, ok := a.IsConstInt(); ok {
		return IntT(-x)
	}
	return App("-", SInt, a)
}

func cmp(op string, a, b *Term) *Term {
	x, ok1 := a.IsConstInt()
	y, ok2 := b.IsConstInt()
	if ok1 && ok2 {
		switch op {
		case "<":
			return BoolT(x < y)
		case "<=":
			return BoolT(x <= y)
		case ">":
			return BoolT(x > y)
		case ">=":
			return BoolT(x >= y)
		}
	}
	return App(op, SBool, a, b)
}
func Lt(a, b *Term) *Term { return cmp("<", a, b) }
func Le(a, b *Term) *Term { return cmp("<=", a, b) }
func Gt(a, b *Term) *Term { return cmp(">", a, b) }
func Ge(a, b *Term) *Term { return cmp(">=", a, b) }

func Select(arr, idx *Term) *Term {
	// select over store with syntactically identical index
	if arr.Op == "store" && arr.Args[1].String() == idx.String() {
		return arr.Args[2]
	}
	return App("select", ArrElem(arr.S), arr, idx)
}

func Store(arr, idx, v *Term) *Term {
	return App("store", arr.S, arr, idx, v)
}

func Forall(bound []*Term, body *Term, pats ...[]*Term) *Term {
	if body == TTrue {
		return TTrue
	}
	if len(bound) == 0 {
		return body
	}
	// forall s. forall i. P  ==  forall s i. P : one quantifier lets the solver pick a pattern that covers both
	if body.Op == "forall" && len(pats) == 0 && len(body.Pats) == 0 {
		return &Term{Op: "forall", Bound: append(append([]*Term{}, bound...), body.Bound...), Args: body.Args, S: SBool}
	}
	return &Term{Op: "forall", Bound: bound, Args: []*Term{body}, S: SBool, Pats: pats}
}
func Exists(bound []*Term, body *Term) *Term {
	if body == TFalse {
		return TFalse
	}
	if len(bound) == 0 {
		return body
	}
	return &Term{Op: "exists", Bound: bound, Args: []*Term{body}, S: SBool}
}

// Subst replaces variables (leaf terms by name) in t.
func Subst(t *Term, m map[string]*Term) *Term {
	if len(m) == 0 {
		return t
	}
	if len(t.Args) == 0 && t.Bound == nil {
		if r, ok := m[t.Op]; ok {
			return r
		}
		return t
	}
	if t.Bound != nil {
		// avoid capture: drop bound names from m
		m2 := m
		for _, b := range t.Bound {
			if _, ok := m[b.Op]; ok {
				if &m2 == &m || len(m2) == len(m) {
					m2 = map[string]*Term{}
					for k, v := range m {
						m2[k] = v
					}
				}
				delete(m2, b.Op)
			}
		}
		nt := &Term{Op: t.Op, Bound: t.Bound, S: t.S, Args: []*Term{Subst(t.Args[0], m2)}}
		for _, p := range t.Pats {
			var np []*Term
			for _, x := range p {
				np = append(np, Subst(x, m2))
			}
			nt.Pats = append(nt.Pats, np)
		}
		return nt
	}
	changed := false
	args := make([]*Term, len(t.Args))
	for i, a := range t.Args {
		args[i] = Subst(a, m)
		if args[i] != a {
			changed = true
		}
	}
	if !changed {
		return t
	}
	return &Term{Op: t.Op, Args: args, S: t.S}
}

// Walk visits every subterm.
func (t *Term) Walk(f func(*Term)) {
	f(t)
	for _, a := range t.Args {
		a.Walk(f)
	}
	for _, p := range t.Pats {
		for _, x := range p {
			x.Walk(f)
		}
	}
}

// Decls collects declarations of free symbols.
type Decls struct {
	consts map[string]string // name -> sort
	funs   map[string]string // name -> full declare-fun text
	order  []string
}

func NewDecls() *Decls { return &Decls{consts: map[string]string{}, funs: map[string]string{}} }

func (d *Decls) Const(name, sort string) *Term {
	if s, ok := d.consts[name]; ok {
		if s != sort {
			panic(fmt.Sprintf("constant %s redeclared with sort %s (was %s)", name, sort, s))
		}
	} else {
		d.consts[name] = sort
		d.order = append(d.order, "c:"+name)
	}
	return Var(name, sort)
}

func (d *Decls) Fun(name string, argSorts []string, ret string) {
	txt := "(declare-fun " + name + " (" + strings.Join(argSorts, " ") + ") " + ret + ")"
	if old, ok := d.funs[name]; ok {
		if old != txt {
			panic("function " + name + " redeclared: " + old + " vs " + txt)
		}
		return
	}
	d.funs[name] = txt
	d.order = append(d.order, "f:"+name)
}

func (d *Decls) Text() string {
	var sb strings.Builder
	for _, o := range d.order {
		if strings.HasPrefix(o, "c:") {
			n := o[2:]
			sb.WriteString("(declare-const " + n + " " + d.consts[n] + ")\n")
		} else {
			sb.WriteString(d.funs[o[2:]] + "\n")
		}
	}
	return sb.String()
}

func sortedKeys[V any](m map[string]V) []string {
	ks := make([]string, 0, len(m))
	for k := range m {
		ks = append(ks, k)
	}
	sort.Strings(ks)
	return ks
}
