package main

import (
	"go/ast"
	"fmt"
	"go/constant"
	"go/token"
	"go/types"
	"sort"
	"strings"

	"golang.org/x/tools/go/ssa"
)

type retInfo struct {
	cond    *Term
	st      *State
	results []Val
	panics  bool
	blk     *ssa.BasicBlock
}

type frame struct {
	c        *FnCtx
	fn       *ssa.Function
	vals     map[ssa.Value]Val
	tuples   map[ssa.Value][]Val
	spec     *FuncSpec
	top      bool
	bindings []Val
	prefix   string
	inherit  []string // active loops of callers
	loopOrd  map[*ssa.BasicBlock]int
	loopBody map[*ssa.BasicBlock]map[*ssa.BasicBlock]bool
	headers  []*ssa.BasicBlock
	callOrd  map[string]int
	ncalls   int
	params   []Val
	defers   []*ssa.Defer
	panicOrd int
	curBlock *ssa.BasicBlock
	curIdx   int
	lookupState *State
	retOrd      int
	rangeIter   map[ssa.Value]*mapRange // map iterators (range over a map)
}

// mapRange: the state of a range over a map. visited is a ghost set (a map[K]bool object) holding the keys the
// iteration has yielded so far; Next yields some key of the map that is not in it, or stops when there is none.
type mapRange struct {
	m       Val
	visited Val
	mt      *types.Map
}

func (f *frame) pos(p token.Pos) string {
	if !p.IsValid() {
		return ""
	}
	pp := f.c.eng.fset.Position(p)
	fn := pp.Filename
	if i := strings.Index(fn, "/repo/"); i >= 0 {
		fn = fn[i+6:]
	}
	return fmt.Sprintf("%s:%d", fn, pp.Line)
}

func isBackEdge(from, to *ssa.BasicBlock) bool { return to.Dominates(from) }

func (f *frame) analyseLoops() {
	f.loopOrd = map[*ssa.BasicBlock]int{}
	f.loopBody = map[*ssa.BasicBlock]map[*ssa.BasicBlock]bool{}
	for _, b := range f.fn.Blocks {
		for _, s := range b.Succs {
			if isBackEdge(b, s) {
				body := f.loopBody[s]
				if body == nil {
					body = map[*ssa.BasicBlock]bool{s: true}
					f.loopBody[s] = body
					f.headers = append(f.headers, s)
				}
				// all blocks that reach b without passing through s
				var stack []*ssa.BasicBlock
				if !body[b] {
					body[b] = true
					stack = append(stack, b)
				}
				for len(stack) > 0 {
					n := stack[len(stack)-1]
					stack = stack[:len(stack)-1]
					for _, p := range n.Preds {
						if !body[p] {
							body[p] = true
							stack = append(stack, p)
						}
					}
				}
			}
		}
	}
	// Headers in source order. The SSA builder creates the blocks of a loop when it reaches the
	// statement, so the smallest block index inside a loop body orders loops by source position
	// (a `for` with a condition has its header created after its body block).
	minIdx := func(h *ssa.BasicBlock) int {
		m := h.Index
		for b := range f.loopBody[h] {
			if b.Index < m {
				m = b.Index
			}
		}
		return m
	}
	sort.Slice(f.headers, func(i, j int) bool { return minIdx(f.headers[i]) < minIdx(f.headers[j]) })
	for i, h := range f.headers {
		f.loopOrd[h] = i + 1
	}
}

// isMapRangeLoop: the loop header starts (after phis) with the Next of a map iterator.
func (f *frame) isMapRangeLoop(h *ssa.BasicBlock) bool {
	for _, in := range h.Instrs {
		switch t := in.(type) {
		case *ssa.Phi:
			continue
		case *ssa.Next:
			return !t.IsString
		default:
			return false
		}
	}
	return false
}

func (f *frame) loopID(h *ssa.BasicBlock) string {
	return fmt.Sprintf("%sloop%d", f.prefix, f.loopOrd[h])
}

func (f *frame) rpo() []*ssa.BasicBlock {
	seen := map[*ssa.BasicBlock]bool{}
	var post []*ssa.BasicBlock
	var dfs func(b *ssa.BasicBlock)
	dfs = func(b *ssa.BasicBlock) {
		seen[b] = true
		for _, s := range b.Succs {
			if isBackEdge(b, s) || seen[s] {
				continue
			}
			dfs(s)
		}
		post = append(post, b)
	}
	dfs(f.fn.Blocks[0])
	for i, j := 0, len(post)-1; i < j; i, j = i+1, j-1 {
		post[i], post[j] = post[j], post[i]
	}
	return post
}

// lookupVar finds the SSA value of a source-level variable as seen at the entry of block b
// (phis of b win), using phi comments, DebugRefs in dominating blocks, parameters and free variables.
func (f *frame) lookupVar(name string, b *ssa.BasicBlock, phiOverride map[*ssa.Phi]Val) (Val, bool) {
	if v, ok := f.lookupVar0(name, b, phiOverride); ok {
		return v, true
	}
	// address-taken locals and named results live in Allocs: read their current value
	if f.lookupState != nil {
		for _, blk := range f.fn.Blocks {
			for _, in := range blk.Instrs {
				if a, ok := in.(*ssa.Alloc); ok && a.Comment == name {
					if p, ok := f.vals[a]; ok {
						return f.c.loadPtr(f.lookupState, p, elemType(a.Type())), true
					}
				}
			}
		}
	}
	return Val{}, false
}

func (f *frame) lookupVar0(name string, b *ssa.BasicBlock, phiOverride map[*ssa.Phi]Val) (Val, bool) {
	// rangeindex_up: the index of the next enclosing range loop (the nearest one is "rangeindex")
	skip := 0
	if name == "rangeindex_up" {
		name, skip = "rangeindex", 1
	}
	for _, in := range b.Instrs {
		phi, ok := in.(*ssa.Phi)
		if !ok {
			break
		}
		if phi.Comment == name {
			if skip > 0 {
				skip--
				continue
			}
			if v, ok := phiOverride[phi]; ok {
				return v, true
			}
			if v, ok := f.vals[phi]; ok {
				return v, true
			}
		}
	}
	// walk up the dominator tree
	for d := b.Idom(); d != nil; d = d.Idom() {
		for i := len(d.Instrs) - 1; i >= 0; i-- {
			switch in := d.Instrs[i].(type) {
			case *ssa.DebugRef:
				if id, ok := in.Expr.(interface{ String() string }); ok {
					_ = id
				}
				if in.IsAddr {
					continue
				}
				if identName(in) == name {
					if v, ok := f.vals[in.X]; ok {
						return v, true
					}
					if _, isConst := in.X.(*ssa.Const); isConst {
						// x := T{...}: the builder records the variable's zero value at its definition and the
						// literal separately; the variable's value is the literal's
						if v, ok := f.defRHS(in, d); ok {
							return v, true
						}
						return f.val(in.X), true
					}
				}
			case *ssa.Phi:
				if in.Comment == name {
					if skip > 0 {
						skip--
						continue
					}
					if v, ok := f.vals[in]; ok {
						return v, true
					}
				}
			}
		}
	}
	if skip > 0 {
		return Val{}, false
	}
	for i, p := range f.fn.Params {
		if p.Name() == name {
			return f.params[i], true
		}
	}
	for i, fv := range f.fn.FreeVars {
		if fv.Name() == name && i < len(f.bindings) {
			b := f.bindings[i]
			if b.IsPtr() && f.lookupState != nil {
				return f.c.loadPtr(f.lookupState, b, elemType(b.T)), true
			}
			return b, true
		}
	}
	return Val{}, false
}

// lookupVarAt resolves a source variable at instruction idx of block b.
func (f *frame) lookupVarAt(name string, b *ssa.BasicBlock, idx int) (Val, bool) {
	for i := idx - 1; i >= 0 && i < len(b.Instrs); i-- {
		switch in := b.Instrs[i].(type) {
		case *ssa.DebugRef:
			if !in.IsAddr && identName(in) == name {
				if v, ok := f.vals[in.X]; ok {
					return v, true
				}
				if _, isConst := in.X.(*ssa.Const); isConst {
					return f.val(in.X), true
				}
			}
		case *ssa.Phi:
			if in.Comment == name {
				if v, ok := f.vals[in]; ok {
					return v, true
				}
			}
		}
	}
	return f.lookupVar(name, b, nil)
}

// allocAddr returns the pointer held by the Alloc that backs source variable name.
func (f *frame) allocAddr(name string) (Val, bool) {
	for _, blk := range f.fn.Blocks {
		for _, in := range blk.Instrs {
			if a, ok := in.(*ssa.Alloc); ok && a.Comment == name {
				if p, ok := f.vals[a]; ok {
					return p, true
				}
			}
		}
	}
	return Val{}, false
}

// withState runs a lookup with the state that alloc-backed variables are read from.
func (f *frame) withState(st *State, fn func() (Val, bool)) (Val, bool) {
	saved := f.lookupState
	f.lookupState = st
	defer func() { f.lookupState = saved }()
	return fn()
}

// defRHS: for the DebugRef of a variable's defining identifier in "x := <composite literal>", the value of the literal.
func (f *frame) defRHS(def *ssa.DebugRef, blk *ssa.BasicBlock) (Val, bool) {
	id, ok := def.Expr.(*ast.Ident)
	if !ok || f.fn.Syntax() == nil {
		return Val{}, false
	}
	var rhs ast.Expr
	ast.Inspect(f.fn.Syntax(), func(n ast.Node) bool {
		if as, ok := n.(*ast.AssignStmt); ok && len(as.Lhs) == len(as.Rhs) {
			for i, l := range as.Lhs {
				if l == ast.Expr(id) {
					rhs = as.Rhs[i]
				}
			}
		}
		return rhs == nil
	})
	if _, isLit := rhs.(*ast.CompositeLit); !isLit {
		return Val{}, false
	}
	for _, in := range blk.Instrs {
		if dr, ok := in.(*ssa.DebugRef); ok && dr.Expr == rhs && !dr.IsAddr {
			if v, ok := f.vals[dr.X]; ok {
				return v, true
			}
		}
	}
	return Val{}, false
}

func identName(d *ssa.DebugRef) string {
	if id, ok := d.Expr.(interface{ End() token.Pos }); ok {
		_ = id
	}
	return types.ExprString(d.Expr)
}

func (f *frame) val(v ssa.Value) Val {
	if r, ok := f.vals[v]; ok {
		return r
	}
	c := f.c
	switch t := v.(type) {
	case *ssa.Const:
		if t.Value == nil {
			return zeroVal(t.Type())
		}
		return c.constVal(t.Type(), t.Value)
	case *ssa.Global:
		return c.globalPtrSSA(t)
	case *ssa.Function:
		return Val{T: t.Type(), L: []*Term{IntT(int64(c.eng.fnID(t)))}, Fn: t}
	case *ssa.FreeVar:
		for i, fv := range f.fn.FreeVars {
			if fv == t {
				if i < len(f.bindings) {
					return f.bindings[i]
				}
			}
		}
		panic(unsupported("free variable " + t.Name() + " without binding"))
	case *ssa.Builtin:
		return Val{T: t.Type(), Fn: t}
	}
	panic(unsupported(fmt.Sprintf("value %s (%T) not evaluated", v.Name(), v)))
}

// ---- global variables ----

func (c *FnCtx) globalPtr(v *types.Var) Val {
	name := "glob_" + sanitize(v.Pkg().Name()+"_"+v.Name())
	obj := c.decls.Const(name, SInt)
	id := c.eng.globalID(v)
	c.addFact(Eq(obj, IntT(int64(id))))
	return mkPtr(types.NewPointer(v.Type()), v.Type(), 0, obj, IntT(0))
}

func (c *FnCtx) globalPtrSSA(g *ssa.Global) Val {
	if v, ok := g.Object().(*types.Var); ok && v != nil {
		return c.globalPtr(v)
	}
	// synthetic globals (init guards etc.)
	name := "glob_" + sanitize(g.Pkg.Pkg.Name()+"_"+g.Name())
	obj := c.decls.Const(name, SInt)
	return mkPtr(g.Type(), elemType(g.Type()), 0, obj, IntT(0))
}

// ---- running a function body ----

func (f *frame) run(args []Val, st0 *State) []retInfo {
	c := f.c
	fn := f.fn
	if len(fn.Blocks) == 0 {
		panic(unsupported("function without body: " + fn.String()))
	}
	if c.depth > 6 {
		panic(unsupported("inlining too deep at " + fn.String()))
	}
	f.vals = map[ssa.Value]Val{}
	f.tuples = map[ssa.Value][]Val{}
	f.callOrd = map[string]int{}
	f.params = args
	for i, p := range fn.Params {
		f.vals[p] = args[i]
	}
	f.analyseLoops()
	if fn.Recover != nil {
		c.note("recover block of " + fn.String() + " ignored")
	}

	edges := map[*ssa.BasicBlock][]edge{}
	edges[fn.Blocks[0]] = []edge{{cond: st0.reach, st: st0, from: nil}}
	var rets []retInfo
	// decreases measures recorded at headers
	measures := map[*ssa.BasicBlock][]*Term{}

	for _, b := range f.rpo() {
		in := edges[b]
		if len(in) == 0 {
			continue // unreachable
		}
		f.curBlock = b
		// active loops
		c.active = append([]string(nil), f.inherit...)
		for _, h := range f.headers {
			if f.loopBody[h][b] {
				c.active = append(c.active, f.loopID(h))
			}
		}
		var st *State
		if _, isHeader := f.loopBody[b]; isHeader {
			st = f.enterLoop(b, in, measures)
		} else {
			st = c.mergeStates(in)
			f.evalPhis(b, in)
			f.afterLoopAsserts(b, st)
		}
		// instructions
		for i, instr := range b.Instrs {
			f.curIdx = i
			if _, ok := instr.(*ssa.Phi); ok {
				continue
			}
			switch t := instr.(type) {
			case *ssa.If:
				cond := f.val(t.Cond).term()
				f.flow(b, b.Succs[0], And(st.reach, cond), st, edges, measures)
				f.flow(b, b.Succs[1], And(st.reach, Not(cond)), st, edges, measures)
			case *ssa.Jump:
				f.flow(b, b.Succs[0], st.reach, st, edges, measures)
			case *ssa.Return:
				f.returnAsserts(st, t)
				var rs []Val
				for _, r := range t.Results {
					rs = append(rs, f.val(r))
				}
				rets = append(rets, retInfo{cond: st.reach, st: st, results: rs, blk: b})
			case *ssa.Panic:
				f.panicOrd++
				f.handlePanic(t, st)
				rets = append(rets, retInfo{cond: st.reach, st: st, panics: true, blk: b})
			default:
				f.exec(instr, st)
			}
		}
	}
	return rets
}

// returnAsserts checks "at return: assert e" clauses (after deferred calls ran) at every return.
func (f *frame) returnAsserts(st *State, r *ssa.Return) {
	if !f.top || f.spec == nil || f.c.pass1 {
		return
	}
	f.retOrd++
	maxOrd := 0
	for _, a := range f.spec.AfterLoop {
		if a.Ordinal < -1 && -1-a.Ordinal > maxOrd {
			maxOrd = -1 - a.Ordinal
		}
	}
	if maxOrd > 0 && f.retOrd > maxOrd {
		// the contract describes every return path; a return it does not know is a path it cannot vouch for
		f.c.oblige("assert", "unexpected-return", f.c.tags, st.reach, TFalse, f.pos(r.Pos()), fmt.Sprintf("the contract describes %d return paths; this is return path %d", maxOrd, f.retOrd))
	}
	for _, a := range f.spec.AfterLoop {
		if a.Ordinal >= 0 || (a.Ordinal != -1 && a.Ordinal != -1-f.retOrd) {
			continue
		}
		env := f.hereEnv(st)
		for i, rv := range r.Results {
			env.vars[fmt.Sprintf("result%d", i)] = f.val(rv)
		}
		tags := a.Tags
		if len(tags) == 0 {
			tags = f.c.tags
		}
		f.c.oblige("assert", "at-return", tags, st.reach, env.evalBool(a.Expr), f.pos(r.Pos()), a.Src)
	}
}

// afterLoopAsserts checks "after loop N: assert e" at the block that all exits of loop N lead to.
func (f *frame) afterLoopAsserts(b *ssa.BasicBlock, st *State) {
	if f.spec == nil || len(f.spec.AfterLoop) == 0 || f.c.pass1 {
		return
	}
	for _, h := range f.headers {
		body := f.loopBody[h]
		if body[b] || len(b.Preds) == 0 || !strings.HasSuffix(b.Comment, ".done") {
			continue
		}
		// the loop's exit block: every way out of the loop (the header's own exit and every break; a block that
		// only leaves the loop is not part of the natural loop) arrives here, and nothing else does: all its
		// predecessors are in the loop or are blocks the header dominates that lie outside of it
		all := b.Idom() == h
		for _, p := range b.Preds {
			if !body[p] && !(h.Dominates(p) && p != b) {
				all = false
			}
		}
		if !all {
			continue
		}
		for _, a := range f.spec.AfterLoop {
			if a.Ordinal != f.loopOrd[h] {
				continue
			}
			f.c.hookHits[fmt.Sprintf("after loop %d", a.Ordinal)] = true
			f.curBlock, f.curIdx = b, firstNonPhi(b)
			env := f.hereEnv(st)
			tags := a.Tags
			if len(tags) == 0 {
				tags = f.c.tags
			}
			f.c.oblige("assert", fmt.Sprintf("after-loop%d", a.Ordinal), tags, st.reach, env.evalBool(a.Expr), f.pos(b.Instrs[0].Pos()), a.Src)
		}
	}
}

func firstNonPhi(b *ssa.BasicBlock) int {
	for i, in := range b.Instrs {
		if _, ok := in.(*ssa.Phi); !ok {
			return i
		}
	}
	return len(b.Instrs)
}

func (f *frame) handlePanic(t *ssa.Panic, st *State) {
	c := f.c
	if f.spec != nil {
		if r, ok := f.spec.AllowPanic[f.panicOrd]; ok {
			c.note(fmt.Sprintf("allow-panic %s#%d: %s", f.fn.Name(), f.panicOrd, r))
			return
		}
		if r, ok := f.spec.AllowPanic[-1]; ok {
			c.note(fmt.Sprintf("allow-panic %s (all): %s", f.fn.Name(), r))
			return
		}
	}
	c.oblige("panic", f.fn.Name(), c.tags, st.reach, TFalse, f.pos(t.Pos()), "explicit panic must be unreachable")
}

// flow propagates the state along edge from->to.
func (f *frame) flow(from, to *ssa.BasicBlock, cond *Term, st *State, edges map[*ssa.BasicBlock][]edge, measures map[*ssa.BasicBlock][]*Term) {
	c := f.c
	if cond == TFalse {
		return
	}
	// name the edge condition
	if len(cond.Args) > 0 && c.noNaming == 0 {
		ec := c.fresh(fmt.Sprintf("e_%d_%d", from.Index, to.Index), SBool)
		c.addFact(Eq(ec, cond))
		cond = ec
	}
	if isBackEdge(from, to) {
		f.closeLoop(from, to, cond, st, measures)
		return
	}
	edges[to] = append(edges[to], edge{cond: cond, st: st.clone(), from: from})
}

func (f *frame) evalPhis(b *ssa.BasicBlock, in []edge) {
	c := f.c
	for _, instr := range b.Instrs {
		phi, ok := instr.(*ssa.Phi)
		if !ok {
			break
		}
		var vals []Val
		for _, e := range in {
			vals = append(vals, f.phiOperand(phi, b, e.from))
		}
		f.vals[phi] = c.mergeVals(vals, in, phi.Type(), phi.Name())
	}
}

func (f *frame) phiOperand(phi *ssa.Phi, b, from *ssa.BasicBlock) Val {
	for i, p := range b.Preds {
		if p == from {
			v := f.val(phi.Edges[i])
			return f.c.coerceTo(v, phi.Type())
		}
	}
	panic("phi operand: predecessor not found")
}

func (c *FnCtx) coerceTo(v Val, t types.Type) Val {
	if len(v.L) == 0 && len(leavesOf(t)) > 0 {
		return zeroVal(t)
	}
	return v
}

func (c *FnCtx) mergeVals(vals []Val, in []edge, t types.Type, name string) Val {
	if len(vals) == 1 {
		return vals[0]
	}
	out := Val{T: t, L: make([]*Term, len(vals[0].L))}
	// static info must agree (nil constants are compatible with anything)
	for _, v := range vals {
		if v.Fn != nil {
			if out.Fn == nil {
				out.Fn = v.Fn
				out.Bindings = v.Bindings
			} else if out.Fn != v.Fn {
				out.Fn = nil
				out.Bindings = nil
				if _, ok := v.Fn.(*localRef); ok {
					panic(unsupported("phi of pointers to different locals"))
				}
			}
		}
		if v.Dyn != nil {
			// interface values: the static pointer information is a convenience (modifies pointee(x)), dropped at merges
			continue
		}
		if v.Root != nil {
			if out.Root == nil {
				out.Root = v.Root
				out.Base = v.Base
			} else if rootKey(out.Root) != rootKey(v.Root) || out.Base != v.Base {
				panic(unsupported(fmt.Sprintf("phi %s merges pointers into different roots (%s+%d vs %s+%d)", name, out.Root, out.Base, v.Root, v.Base)))
			}
		}
	}
	for i := range out.L {
		t := vals[len(vals)-1].L[i]
		for k := len(vals) - 2; k >= 0; k-- {
			t = Ite(in[k].cond, vals[k].L[i], t)
		}
		if len(t.Args) > 0 && c.noNaming == 0 {
			n := c.fresh(name, t.S)
			c.addFact(Eq(n, t))
			t = n
		}
		out.L[i] = t
	}
	return out
}

// ---- loops ----

func (f *frame) loopSpec(h *ssa.BasicBlock) *LoopSpec {
	if f.spec == nil {
		return nil
	}
	if ls := f.spec.Loops[f.loopOrd[h]]; ls != nil {
		return ls
	}
	if f.spec.Sweep && f.top {
		ls := &LoopSpec{Ordinal: f.loopOrd[h], NoTerm: true}
		for _, in := range h.Instrs {
			if phi, ok := in.(*ssa.Phi); ok && phi.Comment == "rangeindex" {
				if c, err := parseClause("-1 <= rangeindex", 0); err == nil {
					ls.Invariants = append(ls.Invariants, c)
				}
			}
		}
		f.spec.Loops[f.loopOrd[h]] = ls
		return ls
	}
	return nil
}

func (f *frame) loopEnv(h *ssa.BasicBlock, st *State, override map[*ssa.Phi]Val) *Env {
	c := f.c
	return &Env{c: c, vars: f.ghostVars(), cur: st, old: c.entry, pkg: pkgOf(f.fn), guard: st.reach,
		entry:      f.entryParams(),
		lookupAddr: f.allocAddr,
		lookup: func(name string) (Val, bool) {
			return f.withState(st, func() (Val, bool) { return f.lookupVar(name, h, override) })
		}}
}

// entryParams: parameter values at entry of the function under verification (top-level frame only).
func (f *frame) entryParams() map[string]Val {
	if !f.top {
		return nil
	}
	m := map[string]Val{}
	for i, p := range f.fn.Params {
		if i < len(f.params) {
			m[p.Name()] = f.params[i]
		}
	}
	// a captured variable at entry: what its cell held in the entry state
	for i, fv := range f.fn.FreeVars {
		if i < len(f.bindings) && f.c.entry != nil {
			b := f.bindings[i]
			if b.IsPtr() {
				m[fv.Name()] = f.c.loadPtr(f.c.entry, b, elemType(b.T))
			} else {
				m[fv.Name()] = b
			}
		}
	}
	return m
}

// ghostVars: the ghost parameters of the function under verification (top-level frame only).
func (f *frame) ghostVars() map[string]Val {
	m := map[string]Val{}
	if f.top {
		for k := range f.c.ghosts {
			m[k] = f.c.ghostAt(k, f.curBlock)
		}
	}
	return m
}

// rangeIndexGuard: the clauses of loop N may speak about "rangeindex" only if loop N is a range loop; otherwise the
// name would resolve to the range index of an earlier loop (a range loop rewritten as an index loop must leave the
// function undecided, not make its invariants false).
func (f *frame) rangeIndexGuard(h *ssa.BasicBlock, ls *LoopSpec) {
	if ls == nil {
		return
	}
	nrange := 0
	for h2, body := range f.loopBody {
		if h2 != h && !body[h] {
			continue // neither this loop nor one that encloses it
		}
		for _, in := range h2.Instrs {
			if phi, ok := in.(*ssa.Phi); ok && phi.Comment == "rangeindex" {
				nrange++
			}
		}
	}
	usesName := func(x ast.Expr, name string) bool {
		found := false
		ast.Inspect(x, func(n ast.Node) bool {
			if id, ok := n.(*ast.Ident); ok && id.Name == name {
				found = true
			}
			return !found
		})
		return found
	}
	if nrange < 2 {
		// rangeindex_up names the index of the next enclosing range loop
		for _, inv := range ls.Invariants {
			if usesName(inv.Expr, "rangeindex_up") {
				panic(specErr("loop %d of %s mentions rangeindex_up but is not a range loop inside a range loop", ls.Ordinal, f.fn.Name()))
			}
		}
	}
	if nrange > 0 {
		return
	}
	uses := func(x ast.Expr) bool { return usesName(x, "rangeindex") }
	for _, inv := range ls.Invariants {
		if uses(inv.Expr) {
			panic(specErr("loop %d of %s is not a range loop but its invariant mentions rangeindex", ls.Ordinal, f.fn.Name()))
		}
	}
	for _, d := range ls.Decreases {
		if uses(d) {
			panic(specErr("loop %d of %s is not a range loop but its measure mentions rangeindex", ls.Ordinal, f.fn.Name()))
		}
	}
}

func (f *frame) enterLoop(h *ssa.BasicBlock, in []edge, measures map[*ssa.BasicBlock][]*Term) *State {
	c := f.c
	ls := f.loopSpec(h)
	f.rangeIndexGuard(h, ls)
	id := f.loopID(h)
	if c.pass1 {
		st := c.mergeStates(in)
		for _, instr := range h.Instrs {
			phi, ok := instr.(*ssa.Phi)
			if !ok {
				break
			}
			// establish static info from entry operands
			var vals []Val
			for _, e := range in {
				vals = append(vals, f.phiOperand(phi, h, e.from))
			}
			m := c.mergeVals(vals, in, phi.Type(), phi.Name())
			fv := c.freshVal(phi.Name(), phi.Type())
			fv.Root, fv.Base, fv.Fn, fv.Bindings = m.Root, m.Base, m.Fn, m.Bindings
			if fv.Root == nil && fv.IsPtr() {
				fv.Root = elemType(fv.T)
			}
			f.vals[phi] = fv
		}
		return st
	}
	if ls == nil && !c.pass1 {
		panic(unsupported(fmt.Sprintf("loop %d of %s has no invariant", f.loopOrd[h], f.fn.Name())))
	}
	// 1. invariants hold on entry
	for _, e := range in {
		override := map[*ssa.Phi]Val{}
		for _, instr := range h.Instrs {
			phi, ok := instr.(*ssa.Phi)
			if !ok {
				break
			}
			override[phi] = f.phiOperand(phi, h, e.from)
		}
		est := e.st.clone()
		est.reach = e.cond
		env := f.loopEnv(h, est, override)
		f.useHints(fmt.Sprintf("loop %d entry", f.loopOrd[h]), env)
		for k, inv := range ls.Invariants {
			c.oblige("invariant-entry", fmt.Sprintf("loop%d.%d", f.loopOrd[h], k+1), c.tags, e.cond, env.evalBool(inv.Expr), f.pos(h.Instrs[0].Pos()), inv.Src)
		}
	}
	// 2. havoc
	pre := c.mergeStates(in)
	st := pre.clone()
	written := sortedKeys(c.loopW[id])
	savedActive := c.active
	c.active = nil // the havoc itself is not a write
	for _, fam := range written {
		srt := c.famSort[fam]
		if srt == "" {
			continue
		}
		old := c.get(pre, fam, srt)
		nv := c.fresh(fam, srt)
		st.m[fam] = nv
		switch {
		case fam == "$alloc":
			c.assume(st.reach, Ge(nv, old))
		case strings.HasPrefix(fam, "H_"):
			c.frameFact(st.reach, fam, srt, old, nv)
		case strings.HasPrefix(fam, "M_"):
			c.frameFactMap(st.reach, fam, srt, old, nv)
		}
	}
	c.active = savedActive
	override := map[*ssa.Phi]Val{}
	for _, instr := range h.Instrs {
		phi, ok := instr.(*ssa.Phi)
		if !ok {
			break
		}
		var vals []Val
		for _, e := range in {
			vals = append(vals, f.phiOperand(phi, h, e.from))
		}
		m := c.mergeVals(vals, in, phi.Type(), phi.Name())
		fv := c.freshVal(phi.Name(), phi.Type())
		fv.Root, fv.Base, fv.Fn, fv.Bindings = m.Root, m.Base, m.Fn, m.Bindings
		if fv.Root == nil && fv.IsPtr() {
			fv.Root = elemType(fv.T)
		}
		c.wellFormed(st.reach, fv, st)
		f.vals[phi] = fv
		override[phi] = fv
	}
	// 3. assume invariants
	env := f.loopEnv(h, st, override)
	for _, inv := range ls.Invariants {
		c.assume(st.reach, env.evalBool(inv.Expr))
	}
	f.useHints(fmt.Sprintf("loop %d", f.loopOrd[h]), env)
	// 4. measures
	var ms []*Term
	for _, d := range ls.Decreases {
		m := env.eval(d).term()
		n := c.fresh("measure", SInt)
		c.addFact(Eq(n, m))
		ms = append(ms, n)
	}
	measures[h] = ms
	return st
}

func clauseTags(cl Clause, def []string) []string {
	if len(cl.Tags) > 0 {
		return cl.Tags
	}
	return def
}

func (f *frame) closeLoop(from, h *ssa.BasicBlock, cond *Term, st *State, measures map[*ssa.BasicBlock][]*Term) {
	c := f.c
	if c.pass1 {
		return
	}
	ls := f.loopSpec(h)
	override := map[*ssa.Phi]Val{}
	for _, instr := range h.Instrs {
		phi, ok := instr.(*ssa.Phi)
		if !ok {
			break
		}
		override[phi] = f.phiOperand(phi, h, from)
	}
	est := st.clone()
	est.reach = cond
	env := f.loopEnv(h, est, override)
	env.header = func(name string) (Val, bool) {
		return f.withState(est, func() (Val, bool) { return f.lookupVar(name, h, nil) })
	}
	f.useHints(fmt.Sprintf("loop %d end", f.loopOrd[h]), env)
	for k, inv := range ls.Invariants {
		c.oblige("invariant-preserved", fmt.Sprintf("loop%d.%d", f.loopOrd[h], k+1), c.tags, cond, env.evalBool(inv.Expr), f.pos(from.Instrs[len(from.Instrs)-1].Pos()), inv.Src)
	}
	if f.isMapRangeLoop(h) && len(ls.Decreases) == 0 {
		// a range over a map yields each key at most once: it terminates by construction (listed as idealisation)
		c.note("range over a map terminates by construction (no measure required)")
		return
	}
	if !ls.NoTerm {
		if len(ls.Decreases) == 0 {
			c.oblige("decreases", fmt.Sprintf("loop%d", f.loopOrd[h]), c.tags, cond, TFalse, f.pos(h.Instrs[0].Pos()), "loop has no decreases clause")
			return
		}
		ms := measures[h]
		var lex *Term = TFalse
		var eqPrefix []*Term
		var bounded []*Term
		for i, d := range ls.Decreases {
			m1 := env.eval(d).term()
			lex = Or(lex, And(append(append([]*Term{}, eqPrefix...), Lt(m1, ms[i]))...))
			eqPrefix = append(eqPrefix, Eq(m1, ms[i]))
			bounded = append(bounded, Ge(ms[i], IntT(0)))
		}
		c.oblige("decreases", fmt.Sprintf("loop%d", f.loopOrd[h]), c.tags, cond, And(And(bounded...), lex), f.pos(h.Instrs[0].Pos()), "measure decreases and is bounded below")
	}
}

// frameFact relates a havocked heap family to its pre-loop version: cells that existed at function
// entry and are outside the function's modifies set are unchanged.
func (c *FnCtx) frameFact(guard *Term, fam, srt string, old, nv *Term) {
	o := Var("o!f", SInt)
	i := Var("i!f", SInt)
	alloc0 := c.get(c.entry, "$alloc", SInt)
	// collect modifies locations of this family
	var objExcl []*Term
	type cell struct{ obj, idx *Term }
	var cells []cell
	for _, l := range c.modLocs {
		if l.mapT != nil {
			continue
		}
		if l.anyObj {
			for k := l.lo; k < l.hi; k++ {
				if heapFam(l.root, k) == fam {
					return
				}
			}
			continue
		}
		match := false
		for k := l.lo; k < l.hi; k++ {
			if heapFam(l.root, k) == fam {
				match = true
			}
		}
		if !match {
			continue
		}
		objExcl = append(objExcl, Not(Eq(o, l.obj)))
		if !l.allIdx {
			cells = append(cells, cell{l.obj, l.idx})
		}
	}
	body := Imp(And(append([]*Term{Lt(o, alloc0)}, objExcl...)...), Eq(Select(nv, o), Select(old, o)))
	c.assume(guard, Forall([]*Term{o}, body, []*Term{Select(nv, o)}))
	// same object, other indices
	seen := map[string]bool{}
	for _, cl := range cells {
		k := cl.obj.String()
		if seen[k] {
			continue
		}
		seen[k] = true
		var excl []*Term
		allIdx := false
		for _, l := range c.modLocs {
			if l.mapT == nil && l.obj.String() == k {
				hit := false
				for q := l.lo; q < l.hi; q++ {
					if heapFam(l.root, q) == fam {
						hit = true
					}
				}
				if !hit {
					continue
				}
				if l.allIdx {
					allIdx = true
				} else {
					excl = append(excl, Not(Eq(i, l.idx)))
				}
			}
		}
		if allIdx {
			continue
		}
		b := Imp(And(append([]*Term{Lt(cl.obj, alloc0)}, excl...)...), Eq(Select(Select(nv, cl.obj), i), Select(Select(old, cl.obj), i)))
		c.assume(guard, Forall([]*Term{i}, b, []*Term{Select(Select(nv, cl.obj), i)}))
	}
}

func (c *FnCtx) frameFactMap(guard *Term, fam, srt string, old, nv *Term) {
	o := Var("o!f", SInt)
	alloc0 := c.get(c.entry, "$alloc", SInt)
	var objExcl []*Term
	for _, l := range c.modLocs {
		if l.mapT != nil && strings.HasPrefix(fam, "M_"+rootKey(l.mapT)+"_") {
			objExcl = append(objExcl, Not(Eq(o, l.obj)))
		}
	}
	body := Imp(And(append([]*Term{Lt(o, alloc0)}, objExcl...)...), Eq(Select(nv, o), Select(old, o)))
	c.assume(guard, Forall([]*Term{o}, body, []*Term{Select(nv, o)}))
}

// wellFormed assumes basic shape facts about a symbolic value.
func (c *FnCtx) wellFormed(guard *Term, v Val, st *State) {
	for _, t := range wfTerms(v, c.get(st, "$alloc", SInt)) {
		c.assume(guard, t)
	}
}

// wfTerms: the well-formedness facts of a value read from a heap in which `alloc` objects exist.
func wfTerms(v Val, alloc *Term) []*Term {
	var out []*Term
	ls := leavesOf(v.T)
	for i := 0; i < len(ls); i++ {
		l := ls[i]
		switch l.Role {
		case "obj":
			out = append(out, And(Ge(v.L[i], IntT(0)), Lt(v.L[i], alloc)))
			if _, ok := l.T.Underlying().(*types.Slice); ok && i+3 < len(ls) {
				off, ln, cp := v.L[i+1], v.L[i+2], v.L[i+3]
				out = append(out, And(Ge(off, IntT(0)), Ge(ln, IntT(0)), Ge(cp, ln)))
				out = append(out, Imp(Eq(v.L[i], IntT(0)), And(Eq(ln, IntT(0)), Eq(cp, IntT(0)))))
			}
			if _, ok := l.T.Underlying().(*types.Pointer); ok && i+1 < len(ls) {
				out = append(out, Imp(Eq(v.L[i], IntT(0)), Eq(v.L[i+1], IntT(0))))
			}
		case "map":
			out = append(out, And(Ge(v.L[i], IntT(0)), Lt(v.L[i], alloc)))
		case "tag":
			out = append(out, Ge(v.L[i], IntT(0)))
			if i+2 < len(ls) {
				out = append(out, Imp(Eq(v.L[i], IntT(0)), And(Eq(v.L[i+1], IntT(0)), Eq(v.L[i+2], IntT(0)))))
			}
		case "":
			if l.Sort == SInt {
				if b, ok := l.T.Underlying().(*types.Basic); ok && b.Info()&types.IsUnsigned != 0 {
					out = append(out, Ge(v.L[i], IntT(0)))
				}
			}
		}
	}
	return out
}

// useHints instantiates the lemma uses registered for program point `at`.
func (f *frame) useHints(at string, env *Env) {
	if f.spec == nil {
		return
	}
	for _, u := range f.spec.Uses {
		if u.At != at {
			continue
		}
		f.c.useLemma(u, env)
	}
}

func (c *FnCtx) useLemma(u UseHint, env *Env) {
	lm, ok := c.eng.spec.Lemmas[u.Lemma]
	if !ok {
		panic(specErr("unknown lemma %s", u.Lemma))
	}
	args := make([]Val, len(u.Args))
	for i, a := range u.Args {
		args[i] = env.eval(a)
	}
	binds := env.bindParams(lm.Params, args, "lemma "+lm.Name)
	lpkg := env.pkg
	if p := c.eng.lemmaPkg(lm); p != nil {
		lpkg = p
	}
	le := &Env{c: c, vars: binds, cur: env.cur, old: env.old, pkg: lpkg, guard: env.guard}
	var req []*Term
	for _, r := range lm.Requires {
		req = append(req, le.evalBool(r.Expr))
	}
	var ens []*Term
	for _, r := range lm.Ensures {
		ens = append(ens, le.evalBool(r.Expr))
	}
	c.assume(env.guard, Imp(And(req...), And(ens...)))
	if lm.Trusted {
		c.assumed["axiom:"+lm.Name] = true
	} else {
		c.assumed["lemma:"+lm.Name] = true
	}
}

// ---- deferred calls ----

// runDefers executes, in reverse order, the defer statements whose block dominates the current block
// (defers inside loops or conditionals are outside the supported subset).
func (f *frame) runDefers(st *State) {
	for i := len(f.defers) - 1; i >= 0; i-- {
		d := f.defers[i]
		if d.Block() == f.curBlock || d.Block().Dominates(f.curBlock) {
			f.execDeferred(d, st)
		}
	}
}

// ---- instructions ----

func (f *frame) needNonNil(p Val, st *State, what string, pos token.Pos) {
	if _, ok := p.Fn.(*localRef); ok {
		return
	}
	f.c.oblige("nil", what, f.c.tags, st.reach, Not(Eq(p.L[0], IntT(0))), f.pos(pos), "nil dereference: "+what)
}

// derefSafe reports whether a pointer-producing SSA value can never be nil.
func derefSafe(v ssa.Value) bool {
	switch t := v.(type) {
	case *ssa.Alloc, *ssa.FieldAddr, *ssa.IndexAddr, *ssa.Global:
		return true
	case *ssa.Parameter:
		fn := t.Parent()
		return fn.Signature.Recv() != nil && len(fn.Params) > 0 && fn.Params[0] == t
	}
	return false
}

func (f *frame) exec(instr ssa.Instruction, st *State) {
	c := f.c
	switch t := instr.(type) {
	case *ssa.DebugRef:
		return
	case *ssa.Alloc:
		et := elemType(t.Type())
		if arr, ok := et.Underlying().(*types.Array); ok {
			// arrays are allocated as a run of elements: pointer-to-array = (obj, first index)
			obj := c.allocObj(st)
			c.zeroObject(st, arr.Elem(), obj)
			f.vals[t] = mkPtr(t.Type(), arr.Elem(), 0, obj, IntT(0))
			return
		}
		if !t.Heap && !hasArray(et) {
			id := sanitize(f.prefix + t.Name() + "_" + t.Comment)
			p := Val{T: t.Type(), L: []*Term{IntT(-1), IntT(0)}, Fn: &localRef{alloc: t, id: id}}
			for i, l := range leavesOf(et) {
				c.set(st, fmt.Sprintf("L.%s.%d", id, i), zeroLeaf(l))
				c.famSort[fmt.Sprintf("L.%s.%d", id, i)] = l.Sort
			}
			f.vals[t] = p
			return
		}
		obj := c.allocObj(st)
		c.zeroObject(st, et, obj)
		f.vals[t] = mkPtr(t.Type(), et, 0, obj, IntT(0))
	case *ssa.FieldAddr:
		p := f.val(t.X)
		if !derefSafe(t.X) {
			f.needNonNil(p, st, "field "+fieldName(t), t.Pos())
		}
		s := elemType(t.X.Type()).Underlying().(*types.Struct)
		if isOpaqueNamed(elemType(t.X.Type())) {
			// fields of opaque foreign structs: reads give unknown values, writes are not tracked
			c.note("field " + fieldName(t) + " of opaque type " + elemType(t.X.Type()).String() + ": reads are unconstrained, writes untracked")
			f.vals[t] = Val{T: t.Type(), L: []*Term{p.L[0], p.L[1]}, Fn: &opaqueRef{}}
			return
		}
		if _, ok := p.Fn.(*opaqueRef); ok {
			f.vals[t] = Val{T: t.Type(), L: p.L, Fn: p.Fn}
			return
		}
		root := p.Root
		if root == nil && p.Fn == nil {
			root = elemType(p.T)
		}
		f.vals[t] = Val{T: t.Type(), L: p.L, Root: root, Base: p.Base + fieldOffset(s, t.Field), Fn: p.Fn}
	case *ssa.Field:
		v := f.val(t.X)
		s := t.X.Type().Underlying().(*types.Struct)
		f.vals[t] = v.sub(fieldOffset(s, t.Field), s.Field(t.Field).Type())
	case *ssa.IndexAddr:
		x := f.val(t.X)
		i := f.val(t.Index).term()
		switch u := t.X.Type().Underlying().(type) {
		case *types.Slice:
			c.oblige("index", "", c.tags, st.reach, And(Le(IntT(0), i), Lt(i, x.L[2])), f.pos(t.Pos()), "index in range")
			f.vals[t] = mkPtr(t.Type(), u.Elem(), 0, x.L[0], Add(x.L[1], i))
		case *types.Pointer:
			arr := u.Elem().Underlying().(*types.Array)
			if x.Root != nil && rootKey(x.Root) == rootKey(arr.Elem()) && x.Base == 0 && x.Fn == nil {
				// array allocated as a run of elements
				c.oblige("index", "", c.tags, st.reach, And(Le(IntT(0), i), Lt(i, IntT(arr.Len()))), f.pos(t.Pos()), "array index in range")
				f.vals[t] = mkPtr(t.Type(), arr.Elem(), 0, x.L[0], Add(x.L[1], i))
				return
			}
			n, ok := i.IsConstInt()
			if !ok {
				panic(unsupported("symbolic index into array"))
			}
			if n < 0 || n >= arr.Len() {
				c.oblige("index", "", c.tags, st.reach, TFalse, f.pos(t.Pos()), "constant index out of range")
			}
			f.vals[t] = Val{T: t.Type(), L: x.L, Root: x.Root, Base: x.Base + int(n)*len(leavesOf(arr.Elem())), Fn: x.Fn}
		default:
			panic(unsupported("IndexAddr on " + t.X.Type().String()))
		}
	case *ssa.Index:
		x := f.val(t.X)
		i := f.val(t.Index).term()
		switch u := t.X.Type().Underlying().(type) {
		case *types.Array:
			n, ok := i.IsConstInt()
			if !ok {
				panic(unsupported("symbolic index into array value"))
			}
			f.vals[t] = x.sub(int(n)*len(leavesOf(u.Elem())), u.Elem())
		case *types.Basic:
			c.oblige("index", "", c.tags, st.reach, And(Le(IntT(0), i), Lt(i, c.sLen(x.term()))), f.pos(t.Pos()), "string index in range")
			f.vals[t] = Val{T: t.Type(), L: []*Term{c.sAt(x.term(), i)}}
		default:
			panic(unsupported("Index on " + t.X.Type().String()))
		}
	case *ssa.Lookup:
		x := f.val(t.X)
		k := f.val(t.Index)
		if isString(t.X.Type()) {
			i := k.term()
			c.oblige("index", "", c.tags, st.reach, And(Le(IntT(0), i), Lt(i, c.sLen(x.term()))), f.pos(t.Pos()), "string index in range")
			f.vals[t] = Val{T: t.Type(), L: []*Term{c.sAt(x.term(), i)}}
			return
		}
		v, ok := c.mapLookup(st, x, k)
		if t.CommaOk {
			f.tuples[t] = []Val{v, boolVal(ok)}
		} else {
			f.vals[t] = v
		}
	case *ssa.UnOp:
		f.execUnOp(t, st)
	case *ssa.BinOp:
		f.vals[t] = f.binop(t, st)
	case *ssa.Store:
		p := f.val(t.Addr)
		if _, ok := p.Fn.(*opaqueRef); ok {
			return
		}
		v := c.coerceTo(f.val(t.Val), elemType(t.Addr.Type()))
		if !derefSafe(t.Addr) {
			f.needNonNil(p, st, "store", t.Pos())
		}
		f.frameCheck(p, len(v.L), st, t.Pos())
		c.storePtr(st, p, v)
	case *ssa.Extract:
		tup, ok := f.tuples[t.Tuple]
		if !ok {
			panic(unsupported("extract from unknown tuple"))
		}
		f.vals[t] = tup[t.Index]
	case *ssa.MakeSlice:
		ln := f.val(t.Len).term()
		cp := f.val(t.Cap).term()
		obj := c.allocObj(st)
		c.zeroObject(st, elemType(t.Type()), obj)
		c.oblige("makeslice", "", c.tags, st.reach, And(Ge(ln, IntT(0)), Ge(cp, ln)), f.pos(t.Pos()), "make: len and cap in range")
		f.vals[t] = Val{T: t.Type(), L: []*Term{obj, IntT(0), ln, cp}}
	case *ssa.Range:
		mt, ok := t.X.Type().Underlying().(*types.Map)
		if !ok {
			panic(unsupported("range over " + t.X.Type().String()))
		}
		if f.rangeIter == nil {
			f.rangeIter = map[ssa.Value]*mapRange{}
		}
		vt := types.NewMap(mt.Key(), types.Typ[types.Bool])
		it := &mapRange{m: f.val(t.X), visited: c.mapNew(st, vt), mt: mt}
		f.rangeIter[t] = it
		if f.top {
			if c.rangeLoop == nil {
				c.rangeLoop = map[int]*mapRange{}
			}
			for _, r := range *t.Referrers() {
				if nx, ok := r.(*ssa.Next); ok {
					c.rangeLoop[f.loopOrd[nx.Block()]] = it
				}
			}
		}
		f.vals[t] = Val{T: t.Type(), L: []*Term{IntT(0)}}
	case *ssa.Next:
		it := f.rangeIter[t.Iter]
		if it == nil || t.IsString {
			panic(unsupported("range over a string"))
		}
		okT := c.fresh("range.ok", SBool)
		k := c.freshVal("range.key", it.mt.Key())
		c.wellFormed(st.reach, k, st)
		v, has := c.mapLookup(st, it.m, k)
		_, seen := c.mapLookup(st, it.visited, k)
		c.assume(st.reach, Imp(okT, And(has, Not(seen))))
		// no key left: every key of the map has been visited
		vm := it.visited.T.Underlying().(*types.Map)
		ks := mapKeySort(it.mt)
		kq := Var("k!rng", ks)
		hasM := Select(Select(c.get(st, mapFam(it.mt, "has"), ArrS(SInt, ArrS(ks, SBool))), it.m.L[0]), kq)
		seenM := Select(Select(c.get(st, mapFam(vm, "has"), ArrS(SInt, ArrS(ks, SBool))), it.visited.L[0]), kq)
		c.assume(st.reach, Imp(Not(okT), Forall([]*Term{kq}, Imp(hasM, seenM), []*Term{hasM})))
		// mark the key visited (only when one was yielded)
		before := map[string]*Term{}
		for _, fam := range []string{mapFam(vm, "has"), mapFam(vm, "v0")} {
			if cur, ok := st.m[fam]; ok {
				before[fam] = cur
			}
		}
		hasBefore := c.get(st, mapFam(vm, "has"), ArrS(SInt, ArrS(ks, SBool)))
		valBefore := c.get(st, mapFam(vm, "v0"), ArrS(SInt, ArrS(ks, SBool)))
		c.mapUpdate(st, it.visited, k, boolVal(TTrue))
		c.set(st, mapFam(vm, "has"), Ite(okT, c.get(st, mapFam(vm, "has"), ArrS(SInt, ArrS(ks, SBool))), hasBefore))
		c.set(st, mapFam(vm, "v0"), Ite(okT, c.get(st, mapFam(vm, "v0"), ArrS(SInt, ArrS(ks, SBool))), valBefore))
		f.tuples[t] = []Val{boolVal(okT), k, v}
	case *ssa.MakeMap:
		f.vals[t] = c.mapNew(st, t.Type())
	case *ssa.MapUpdate:
		m := f.val(t.Map)
		k := f.val(t.Key)
		v := c.coerceTo(f.val(t.Value), elemType(t.Map.Type()))
		c.oblige("nilmap", "", c.tags, st.reach, Not(Eq(m.L[0], IntT(0))), f.pos(t.Pos()), "assignment to entry in nil map")
		f.frameCheckMap(m, st, t.Pos())
		c.mapUpdate(st, m, k, v)
	case *ssa.MakeInterface:
		f.vals[t] = c.makeInterface(f.val(t.X), t.X.Type(), t.Type())
	case *ssa.ChangeInterface:
		v := f.val(t.X)
		f.vals[t] = Val{T: t.Type(), L: v.L}
	case *ssa.ChangeType:
		v := f.val(t.X)
		nv := Val{T: t.Type(), L: v.L, Root: v.Root, Base: v.Base, Fn: v.Fn, Bindings: v.Bindings}
		f.vals[t] = nv
	case *ssa.Convert:
		f.vals[t] = f.convert(t, st)
	case *ssa.Slice:
		f.vals[t] = f.sliceOp(t, st)
	case *ssa.TypeAssert:
		f.typeAssert(t, st)
	case *ssa.MakeClosure:
		fn := t.Fn.(*ssa.Function)
		var bs []Val
		for _, b := range t.Bindings {
			bs = append(bs, f.val(b))
		}
		cid := c.fresh("closure", SInt)
		c.addFact(Gt(cid, IntT(0)))
		f.vals[t] = Val{T: t.Type(), L: []*Term{cid}, Fn: fn, Bindings: bs}
	case *ssa.Call:
		f.call(t, st)
	case *ssa.Defer:
		f.defers = append(f.defers, t)
		// evaluate the function value and arguments now (Go semantics) - they are already SSA values
	case *ssa.RunDefers:
		f.runDefers(st)
	default:
		panic(unsupported(fmt.Sprintf("instruction %T: %s", instr, instr)))
	}
}

// opaqueRef marks pointers into opaque foreign structs.
type opaqueRef struct{}

func hasArray(t types.Type) bool {
	switch u := t.Underlying().(type) {
	case *types.Array:
		return true
	case *types.Struct:
		if isOpaqueNamed(t) {
			return false
		}
		for i := 0; i < u.NumFields(); i++ {
			if hasArray(u.Field(i).Type()) {
				return true
			}
		}
	}
	return false
}

func fieldName(t *ssa.FieldAddr) string {
	s := elemType(t.X.Type()).Underlying().(*types.Struct)
	return s.Field(t.Field).Name()
}

func (f *frame) execUnOp(t *ssa.UnOp, st *State) {
	c := f.c
	x := f.val(t.X)
	switch t.Op {
	case token.MUL:
		if _, ok := x.Fn.(*opaqueRef); ok {
			v := c.freshVal(t.Name(), t.Type())
			c.wellFormed(st.reach, v, st)
			f.vals[t] = v
			return
		}
		if !derefSafe(t.X) {
			f.needNonNil(x, st, "load", t.Pos())
		}
		v := c.loadPtr(st, x, t.Type())
		c.wellFormed(st.reach, v, st)
		f.vals[t] = v
	case token.NOT:
		f.vals[t] = boolVal(Not(x.term()))
	case token.SUB:
		f.vals[t] = Val{T: t.Type(), L: []*Term{Neg(x.term())}}
	case token.XOR:
		c.decls.Fun("bitnot", []string{SInt}, SInt)
		f.vals[t] = Val{T: t.Type(), L: []*Term{App("bitnot", SInt, x.term())}}
	default:
		panic(unsupported("unary operator " + t.Op.String()))
	}
}

func (f *frame) frameCheck(p Val, nleaves int, st *State, pos token.Pos) {
	c := f.c
	if _, ok := p.Fn.(*localRef); ok {
		return
	}
	if c.pass1 || !c.hasMod {
		return
	}
	alloc0 := c.get(c.entry, "$alloc", SInt)
	var conds []*Term
	for i := 0; i < nleaves; i++ {
		conds = append(conds, Or(Ge(p.L[0], alloc0), inLocs(c.modLocs, p.Root, p.Base+i, p.L[0], p.L[1])))
	}
	c.oblige("frame", "", c.tags, st.reach, And(conds...), f.pos(pos), "store target is in the modifies clause or freshly allocated")
}

func (f *frame) frameCheckMap(m Val, st *State, pos token.Pos) {
	c := f.c
	if c.pass1 || !c.hasMod {
		return
	}
	alloc0 := c.get(c.entry, "$alloc", SInt)
	mt := m.T.Underlying().(*types.Map)
	var alts []*Term
	alts = append(alts, Ge(m.L[0], alloc0))
	for _, l := range c.modLocs {
		if l.mapT != nil && rootKey(l.mapT) == rootKey(mt) {
			alts = append(alts, Eq(m.L[0], l.obj))
		}
	}
	c.oblige("frame", "map", c.tags, st.reach, Or(alts...), f.pos(pos), "map written is in the modifies clause or freshly allocated")
}

func (f *frame) binop(t *ssa.BinOp, st *State) Val {
	c := f.c
	x := f.val(t.X)
	y := f.val(t.Y)
	rt := t.Type()
	switch t.Op {
	case token.EQL, token.NEQ:
		var r *Term
		xt := t.X.Type()
		switch xt.Underlying().(type) {
		case *types.Interface:
			if isZeroConst(t.Y) {
				r = Eq(x.L[0], IntT(0))
			} else if isZeroConst(t.X) {
				r = Eq(y.L[0], IntT(0))
			} else {
				r = c.ifaceEq(x, y)
			}
		default:
			x = c.coerceTo(x, t.Y.Type())
			y = c.coerceTo(y, t.X.Type())
			if _, ok := t.Y.Type().Underlying().(*types.Interface); ok {
				r = c.ifaceEq(x, y)
			} else if containsIface(xt) {
				r = c.structEq(x, y, xt)
			} else if _, isSlice := xt.Underlying().(*types.Slice); isSlice {
				// comparison with nil only
				if isZeroConst(t.Y) {
					r = Eq(x.L[0], IntT(0))
				} else {
					r = Eq(y.L[0], IntT(0))
				}
			} else if _, isPtr := xt.Underlying().(*types.Pointer); isPtr {
				if isZeroConst(t.Y) {
					r = ptrNil(x)
				} else if isZeroConst(t.X) {
					r = ptrNil(y)
				} else {
					r = c.ptrEq(x, y)
				}
			} else {
				r = valEq(x, y)
			}
		}
		if t.Op == token.NEQ {
			r = Not(r)
		}
		return boolVal(r)
	}
	if isString(t.X.Type()) {
		switch t.Op {
		case token.ADD:
			return Val{T: rt, L: []*Term{c.sCat(x.term(), y.term())}}
		case token.LSS, token.LEQ, token.GTR, token.GEQ:
			c.decls.Fun("sless", []string{SStr, SStr}, SBool)
			a, b := x.term(), y.term()
			switch t.Op {
			case token.LSS:
				return boolVal(App("sless", SBool, a, b))
			case token.GTR:
				return boolVal(App("sless", SBool, b, a))
			case token.LEQ:
				return boolVal(Not(App("sless", SBool, b, a)))
			default:
				return boolVal(Not(App("sless", SBool, a, b)))
			}
		}
	}
	a, b := x.term(), y.term()
	if a.S == SBool {
		switch t.Op {
		case token.AND:
			return boolVal(And(a, b))
		case token.OR:
			return boolVal(Or(a, b))
		}
	}
	isFloat := false
	if bt, ok := t.X.Type().Underlying().(*types.Basic); ok && bt.Info()&types.IsFloat != 0 {
		isFloat = true
	}
	if isFloat {
		name := "fop_" + sanitize(t.Op.String())
		srt := SInt
		switch t.Op {
		case token.LSS, token.LEQ, token.GTR, token.GEQ:
			srt = SBool
		}
		c.decls.Fun(name, []string{SInt, SInt}, srt)
		return Val{T: rt, L: []*Term{App(name, srt, a, b)}}
	}
	switch t.Op {
	case token.ADD:
		r := Add(a, b)
		f.overflow(t, r, st)
		return Val{T: rt, L: []*Term{r}}
	case token.SUB:
		r := Sub(a, b)
		f.overflow(t, r, st)
		return Val{T: rt, L: []*Term{r}}
	case token.MUL:
		r := Mul(a, b)
		f.overflow(t, r, st)
		return Val{T: rt, L: []*Term{r}}
	case token.QUO:
		c.oblige("div", "", c.tags, st.reach, Not(Eq(b, IntT(0))), f.pos(t.Pos()), "division by zero")
		return Val{T: rt, L: []*Term{goDiv(a, b)}}
	case token.REM:
		c.oblige("div", "", c.tags, st.reach, Not(Eq(b, IntT(0))), f.pos(t.Pos()), "division by zero")
		return Val{T: rt, L: []*Term{goRem(a, b)}}
	case token.LSS:
		return boolVal(Lt(a, b))
	case token.LEQ:
		return boolVal(Le(a, b))
	case token.GTR:
		return boolVal(Gt(a, b))
	case token.GEQ:
		return boolVal(Ge(a, b))
	case token.AND, token.OR, token.XOR, token.SHL, token.SHR, token.AND_NOT:
		name := map[token.Token]string{token.AND: "bitand", token.OR: "bitor", token.XOR: "bitxor", token.SHL: "shl", token.SHR: "shr", token.AND_NOT: "bitandnot"}[t.Op]
		c.decls.Fun(name, []string{SInt, SInt}, SInt)
		c.note("bit operation " + name + " treated as uninterpreted")
		return Val{T: rt, L: []*Term{App(name, SInt, a, b)}}
	}
	panic(unsupported("binary operator " + t.Op.String()))
}

func isZeroConst(v ssa.Value) bool {
	c, ok := v.(*ssa.Const)
	return ok && c.Value == nil
}

func containsIface(t types.Type) bool {
	switch u := t.Underlying().(type) {
	case *types.Interface:
		return true
	case *types.Struct:
		if isOpaqueNamed(t) {
			return false
		}
		for i := 0; i < u.NumFields(); i++ {
			if containsIface(u.Field(i).Type()) {
				return true
			}
		}
	}
	return false
}

func (c *FnCtx) structEq(x, y Val, t types.Type) *Term {
	s, ok := t.Underlying().(*types.Struct)
	if !ok || isOpaqueNamed(t) {
		if _, isI := t.Underlying().(*types.Interface); isI {
			return c.ifaceEq(x, y)
		}
		return valEq(x, y)
	}
	var cs []*Term
	for i := 0; i < s.NumFields(); i++ {
		ft := s.Field(i).Type()
		cs = append(cs, c.structEq(x.sub(fieldOffset(s, i), ft), y.sub(fieldOffset(s, i), ft), ft))
	}
	return And(cs...)
}

func ptrNil(x Val) *Term {
	if _, ok := x.Fn.(*localRef); ok {
		return TFalse
	}
	return Eq(x.L[0], IntT(0))
}

func (c *FnCtx) ptrEq(x, y Val) *Term {
	_, lx := x.Fn.(*localRef)
	_, ly := y.Fn.(*localRef)
	if lx || ly {
		if lx && ly && x.Fn == y.Fn && x.Base == y.Base {
			return TTrue
		}
		if lx != ly {
			// local vs heap / nil
			return TFalse
		}
		return TFalse
	}
	if x.Root != nil && y.Root != nil && (rootKey(x.Root) != rootKey(y.Root) || x.Base != y.Base) {
		// pointers into different roots are equal only if both nil
		return And(Eq(x.L[0], IntT(0)), Eq(y.L[0], IntT(0)))
	}
	return valEq(x, y)
}

// overflow emits a no-overflow obligation when the function asks for it.
func (f *frame) overflow(t *ssa.BinOp, r *Term, st *State) {
	c := f.c
	if f.spec == nil || !f.spec.Overflow {
		return
	}
	b, ok := t.Type().Underlying().(*types.Basic)
	if !ok || b.Info()&types.IsInteger == 0 {
		return
	}
	lo, hi := intRange(b)
	if lo == "" {
		return
	}
	c.oblige("overflow", "", c.tags, st.reach, And(Le(BigIntT(lo), r), Le(r, BigIntT(hi))), f.pos(t.Pos()), "integer arithmetic stays within "+b.Name())
}

func intRange(b *types.Basic) (string, string) {
	switch b.Kind() {
	case types.Int, types.Int64:
		return "-9223372036854775808", "9223372036854775807"
	case types.Int32:
		return "-2147483648", "2147483647"
	case types.Int16:
		return "-32768", "32767"
	case types.Int8:
		return "-128", "127"
	case types.Uint, types.Uint64, types.Uintptr:
		return "0", "18446744073709551615"
	case types.Uint32:
		return "0", "4294967295"
	case types.Uint16:
		return "0", "65535"
	case types.Uint8:
		return "0", "255"
	}
	return "", ""
}

func (f *frame) convert(t *ssa.Convert, st *State) Val {
	c := f.c
	x := f.val(t.X)
	from, to := t.X.Type().Underlying(), t.Type().Underlying()
	fb, fok := from.(*types.Basic)
	tb, tok := to.(*types.Basic)
	if fok && tok {
		switch {
		case fb.Info()&types.IsInteger != 0 && tb.Info()&types.IsInteger != 0:
			// value-preserving when in range; wrap-around is not modelled (noted)
			lo, hi := intRange(tb)
			flo, fhi := intRange(fb)
			if lo != "" && !(rangeWithin(flo, fhi, lo, hi)) {
				if f.spec != nil && f.spec.Overflow {
					c.oblige("overflow", "convert", c.tags, st.reach, And(Le(BigIntT(lo), x.term()), Le(x.term(), BigIntT(hi))), f.pos(t.Pos()), "integer conversion preserves the value")
				} else {
					c.note("integer conversions assumed value-preserving")
				}
			}
			return Val{T: t.Type(), L: x.L}
		case fb.Info()&types.IsString != 0 && tb.Info()&types.IsString != 0:
			return Val{T: t.Type(), L: x.L}
		case fb.Info()&types.IsInteger != 0 && tb.Info()&types.IsString != 0:
			return Val{T: t.Type(), L: []*Term{App("rune2str", SStr, x.term())}}
		case fb.Info()&(types.IsInteger|types.IsFloat) != 0 && tb.Info()&(types.IsInteger|types.IsFloat) != 0:
			c.decls.Fun("numconv", []string{SInt}, SInt)
			return Val{T: t.Type(), L: []*Term{App("numconv", SInt, x.term())}}
		}
	}
	// string <-> []byte / []rune
	if fok && fb.Info()&types.IsString != 0 {
		if sl, ok := to.(*types.Slice); ok {
			obj := c.allocObj(st)
			name := "bytesLen"
			if b, ok := sl.Elem().Underlying().(*types.Basic); ok && b.Kind() == types.Int32 {
				name = "rcount"
			}
			var ln *Term
			if name == "bytesLen" {
				ln = c.sLen(x.term())
			} else {
				c.decls.Fun("rcount", []string{SStr}, SInt)
				ln = App("rcount", SInt, x.term())
				c.addFact(And(Ge(ln, IntT(0)), Le(ln, c.sLen(x.term()))))
			}
			// contents: uninterpreted
			fam := heapFam(sl.Elem(), 0)
			h := c.get(st, fam, heapSort(SInt))
			kind := "str2bytes"
			if name == "rcount" {
				kind = "str2runes"
			}
			c.decls.Fun(kind, []string{SStr}, ArrS(SInt, SInt))
			c.set(st, fam, Store(h, obj, App(kind, ArrS(SInt, SInt), x.term())))
			return Val{T: t.Type(), L: []*Term{obj, IntT(0), ln, ln}}
		}
	}
	if tok && tb.Info()&types.IsString != 0 {
		if sl, ok := from.(*types.Slice); ok {
			fam := heapFam(sl.Elem(), 0)
			h := c.get(st, fam, heapSort(SInt))
			kind := "bytes2str"
			if b, ok := sl.Elem().Underlying().(*types.Basic); ok && b.Kind() == types.Int32 {
				kind = "runes2str"
			}
			if kind != "bytes2str" {
				c.decls.Fun(kind, []string{ArrS(SInt, SInt), SInt, SInt}, SStr)
			}
			r := App(kind, SStr, Select(h, x.L[0]), x.L[1], x.L[2])
			if kind == "bytes2str" {
				c.addFact(Eq(c.sLen(r), x.L[2]))
			}
			return Val{T: t.Type(), L: []*Term{r}}
		}
	}
	panic(unsupported(fmt.Sprintf("conversion %s -> %s", t.X.Type(), t.Type())))
}

func rangeWithin(flo, fhi, lo, hi string) bool {
	if flo == "" {
		return false
	}
	cmp := func(a, b string) int {
		x, _ := constant.MakeFromLiteral(strings.TrimPrefix(a, "-"), token.INT, 0), 0
		y, _ := constant.MakeFromLiteral(strings.TrimPrefix(b, "-"), token.INT, 0), 0
		if strings.HasPrefix(a, "-") {
			x = constant.UnaryOp(token.SUB, x, 0)
		}
		if strings.HasPrefix(b, "-") {
			y = constant.UnaryOp(token.SUB, y, 0)
		}
		if constant.Compare(x, token.LSS, y) {
			return -1
		}
		if constant.Compare(x, token.GTR, y) {
			return 1
		}
		return 0
	}
	return cmp(flo, lo) >= 0 && cmp(fhi, hi) <= 0
}

func (f *frame) sliceOp(t *ssa.Slice, st *State) Val {
	c := f.c
	x := f.val(t.X)
	var lo, hi *Term
	if t.Low != nil {
		lo = f.val(t.Low).term()
	} else {
		lo = IntT(0)
	}
	if isString(t.X.Type()) {
		s := x.term()
		if t.High != nil {
			hi = f.val(t.High).term()
		} else {
			hi = c.sLen(s)
		}
		c.oblige("slice", "", c.tags, st.reach, And(Le(IntT(0), lo), Le(lo, hi), Le(hi, c.sLen(s))), f.pos(t.Pos()), "string slice bounds in range")
		return Val{T: t.Type(), L: []*Term{c.sSub(s, lo, hi)}}
	}
	if _, ok := t.X.Type().Underlying().(*types.Slice); ok {
		if t.High != nil {
			hi = f.val(t.High).term()
		} else {
			hi = x.L[2]
		}
		cp := x.L[3]
		goal := And(Le(IntT(0), lo), Le(lo, hi), Le(hi, cp))
		if t.Max != nil {
			mx := f.val(t.Max).term()
			goal = And(Le(IntT(0), lo), Le(lo, hi), Le(hi, mx), Le(mx, cp))
			cp = mx
		}
		c.oblige("slice", "", c.tags, st.reach, goal, f.pos(t.Pos()), "slice bounds in range")
		return Val{T: t.Type(), L: []*Term{x.L[0], Add(x.L[1], lo), Sub(hi, lo), Sub(cp, lo)}}
	}
	if pt, ok := t.X.Type().Underlying().(*types.Pointer); ok {
		if arr, ok := pt.Elem().Underlying().(*types.Array); ok && x.Root != nil && rootKey(x.Root) == rootKey(arr.Elem()) && x.Base == 0 && x.Fn == nil {
			n := IntT(arr.Len())
			if t.High != nil {
				hi = f.val(t.High).term()
			} else {
				hi = n
			}
			c.oblige("slice", "", c.tags, st.reach, And(Le(IntT(0), lo), Le(lo, hi), Le(hi, n)), f.pos(t.Pos()), "array slice bounds in range")
			return Val{T: t.Type(), L: []*Term{x.L[0], Add(x.L[1], lo), Sub(hi, lo), Sub(n, lo)}}
		}
	}
	panic(unsupported("slice of " + t.X.Type().String()))
}
