#!/bin/bash
# usage: tools_seedverify.sh <srcdir with patch.diff demo_test.go> <props...>
# verifies a seeded change in a scratch worktree of /repo HEAD: applies, suite passes, demo fails with / passes without; then runs ./check.
src=$1; shift
export GOFLAGS=-mod=mod GOPROXY=off GOSUMDB=off GOTOOLCHAIN=local
wt=/tmp/seedverify_$$
git -C /repo worktree add -q --detach $wt HEAD || exit 9
cleanup() { git -C /repo worktree remove --force $wt; }
trap cleanup EXIT
cd $wt
place=$(head -1 $src/demo_test.go | sed -n 's/.*place in: *\([^ ]*\).*/\1/p'); place=${place:-.}
[ "$place" = "repo" ] && place=.
[ "$place" = "root" ] && place=.
place=${place%/}
[ -d "$wt/$place" ] || place=.
cp $src/demo_test.go $wt/$place/zz_demo_seed_test.go
base=$(cd $wt/$place && go test -vet=off -count=1 -run 'Demo|demo|C[0-9][0-9]' . 2>&1 | tail -1)
if ! git apply $src/patch.diff 2>/dev/null; then echo "RESULT applies=no"; exit 3; fi
rm -f $wt/$place/zz_demo_seed_test.go
suite=$(go test -vet=off -count=1 ./... 2>&1 | grep -c "^FAIL")
cp $src/demo_test.go $wt/$place/zz_demo_seed_test.go
with=$(cd $wt/$place && go test -vet=off -count=1 -run 'Demo|demo|C[0-9][0-9]' . 2>&1 | tail -1)
echo "RESULT applies=yes suite_fail_lines=$suite demo_without=[$base] demo_with=[$with] place=$place"
